//! Scenarios executed under Miri (engine B). One Miri seed = one exactly repeatable execution of the
//! unmodified library, its dependencies and std: the seed owns the thread scheduler (pre-emption at
//! basic-block granularity), the address allocator and getrandom (hence every RandomState hash key).
//!
//!   miri-scn c14 <scenario>     concurrent callers against a shared AST and the string entry points
//!   miri-scn c17 <scenario>     code generation under seeded entropy
//!   miri-scn list               scenario counts
//!
//! Every run prints exactly one line: `RESULT <kind> <scenario> digest=<hex> trace=<...>` (or
//! `MISMATCH ...` and exits 1), so that the interleaved output of -Zmiri-many-seeds stays parseable.

#[allow(dead_code, unused_imports)]
#[path = "/repo/cddl-derive/src/codegen.rs"]
mod codegen;

use cddl::validator::Validator as _;
use std::sync::atomic::{AtomicUsize, Ordering};

fn fnv(h: u64, b: &[u8]) -> u64 {
  let mut h = h;
  for x in b {
    h ^= *x as u64;
    h = h.wrapping_mul(0x100000001b3);
  }
  h
}

struct Scn {
  schema: &'static str,
  /// (kind, document) kind: 'j' JSON text, 'c' CBOR hex
  docs: &'static [(char, &'static str)],
}

const C14: &[Scn] = &[
  Scn { schema: "root = { a: int, ? b: [* tstr], c: u }\nu = uri / nil\n", docs: &[('j', r#"{"a":1,"b":["x"],"c":"urn:x:y"}"#), ('j', r#"{"a":"no","c":"::"}"#), ('c', "a2616101616360"), ('j', r#"{"a":1,"c":null,"z":0}"#)] },
  Scn { schema: "root = [* item]\nitem = tstr .regexp \"[a-c]+[0-9]?\" / int .lt 10\n", docs: &[('j', r#"["abc1", 3, "zzz", 99]"#), ('j', r#"["a"]"#), ('c', "826361623303"), ('j', r#"[true]"#)] },
  Scn { schema: "root = { * tstr => v }\nv = tdate / (tstr .abnf \"r\\nr = 1*DIGIT\\n\") / [* v]\n", docs: &[('j', r#"{"k":"2020-01-01T00:00:00Z","l":"123","m":["9",["8"]]}"#), ('j', r#"{"k":"x1"}"#), ('j', r#"{"k":["2020-13-01T00:00:00Z"]}"#)] },
  Scn { schema: "root = g<int, tstr>\ng<A, B> = { a: A, b: B, ? c: g<B, A> }\n", docs: &[('j', r#"{"a":1,"b":"x","c":{"a":"y","b":2}}"#), ('j', r#"{"a":1,"b":"x","c":{"a":3,"b":2}}"#), ('c', "a261610161626178")] },
  Scn { schema: "root = { kind: \"a\" / \"b\", ? n: uint .size 1, $$ext }\n$$ext //= ( x: int )\n", docs: &[('j', r#"{"kind":"a","n":255,"x":1}"#), ('j', r#"{"kind":"c","n":256}"#), ('j', r#"{"kind":"b","x":"s"}"#)] },
  Scn { schema: "root = [1*3 p]\np = [tstr, int] / { name: tstr .pcre \"^[A-Z][a-z]+$\" }\n", docs: &[('j', r#"[{"name":"Alice"},{"name":"bob"}]"#), ('j', r#"[]"#), ('j', r#"[{"name":"Carol"}]"#)] },
  // reference chains and a zero-progress cycle through five rules: the recursion guard keeps a per-call set of
  // (rule, location) names, keyed by this execution's hash keys
  Scn { schema: "root = { k: a, ? l: [* e1] }\na = b\nb = c\nc = d\nd = e\ne = a\ne1 = e2\ne2 = e3\ne3 = int\n", docs: &[('j', r#"{"k":1}"#), ('j', r#"{"k":"s","l":[1,"x"]}"#), ('c', "a1616b01"), ('j', r#"{"k":[],"l":[]}"#)] },
];

/// schemas that are malformed in several places at once: *which* error is reported must not depend on
/// hash order
const C14_BAD: &[&str] = &[
  "a = int\nb = tstr\na = tstr\nb = int\nc = undefined-1 / undefined-2\nc = 1\n",
  "root = [x1, x2, x3, x4]\nroot = { y1: y2 }\n",
];

fn hexd(s: &str) -> Vec<u8> {
  let s: String = s.chars().filter(|c| c.is_ascii_hexdigit()).collect();
  (0..s.len() / 2).map(|i| u8::from_str_radix(&s[2 * i..2 * i + 2], 16).unwrap()).collect()
}

fn json_resp(r: Result<(), cddl::validator::json::Error>) -> String {
  match r {
    Ok(()) => "ok".into(),
    Err(cddl::validator::json::Error::Validation(l)) => {
      let mut s = String::from("validation");
      for e in l {
        s.push_str(&format!("|{}@{}@{}", e.json_location, e.reason, e.cddl_location));
      }
      s
    }
    Err(e) => format!("err:{}", e),
  }
}

fn cbor_resp(r: Result<(), cddl::validator::cbor::Error<std::io::Error>>) -> String {
  match r {
    Ok(()) => "ok".into(),
    Err(cddl::validator::cbor::Error::Validation(l)) => {
      let mut s = String::from("validation");
      for e in l {
        s.push_str(&format!("|{}@{}@{}", e.cbor_location, e.reason, e.cddl_location));
      }
      s
    }
    Err(e) => format!("err:{}", e),
  }
}

/// One call against the shared AST.
fn call_shared(ast: &cddl::ast::CDDL<'_>, kind: char, doc: &str) -> String {
  match kind {
    'j' => match serde_json::from_str::<serde_json::Value>(doc) {
      Ok(v) => {
        let mut jv = cddl::validator::json::JSONValidator::new(ast, v, None);
        json_resp(jv.validate())
      }
      Err(e) => format!("docerr:{}", e),
    },
    _ => match cddl::validator::cbor_value::decode_cbor(&hexd(doc)) {
      Ok(v) => {
        let mut cv = cddl::validator::cbor::CBORValidator::new(ast, v, None);
        cbor_resp(cv.validate())
      }
      Err(e) => format!("docerr:{}", e),
    },
  }
}

fn call_str(schema: &str, kind: char, doc: &str) -> String {
  match kind {
    'j' => json_resp(cddl::validate_json_from_str(schema, doc, None)),
    _ => cbor_resp(cddl::validate_cbor_from_slice(schema, &hexd(doc), None)),
  }
}

fn c14(idx: usize) -> i32 {
  let scn = &C14[idx % C14.len()];
  let bad = C14_BAD[idx % C14_BAD.len()];
  let ast = cddl::cddl_from_str(scn.schema, false).expect("scenario schema parses");
  let seq = AtomicUsize::new(0);
  let n = scn.docs.len();
  // concurrent phase first: the callers meet every lazily initialised static cold
  let mut conc: Vec<(usize, usize, String)> = Vec::new(); // (start seq, call id, response)
  std::thread::scope(|s| {
    let hs: Vec<_> = (0..2usize)
      .map(|t| {
        let ast = &ast;
        let seq = &seq;
        s.spawn(move || {
          let mut out = Vec::new();
          for k in 0..n {
            let i = (k + t) % n;
            let (kind, doc) = scn.docs[i];
            let at = seq.fetch_add(1, Ordering::SeqCst);
            // both threads use both routes (the shared AST and the string entry points, which parse the
            // schema again), alternating, so that every path is executed by two threads
            let r = if (k + t) % 2 == 0 { call_shared(ast, kind, doc) } else { call_str(scn.schema, kind, doc) };
            out.push((at, i, r));
          }
          if t == 1 {
            let at = seq.fetch_add(1, Ordering::SeqCst);
            out.push((at, n, format!("{:?}", cddl::cddl_from_str(bad, false).map(|_| ()))));
          }
          out
        })
      })
      .collect();
    for h in hs {
      conc.extend(h.join().expect("client thread"));
    }
  });
  // sequential reference afterwards, on the main thread
  let mut digest = 0xcbf29ce484222325u64;
  let mut bad_ref = String::new();
  for (at, i, r) in &conc {
    let _ = at;
    let reference = if *i == n {
      if bad_ref.is_empty() {
        bad_ref = format!("{:?}", cddl::cddl_from_str(bad, false).map(|_| ()));
      }
      bad_ref.clone()
    } else {
      let (kind, doc) = scn.docs[*i];
      call_shared(&ast, kind, doc)
    };
    // the string entry point and the shared-AST path must agree with each other and with the reference,
    // except for the wording of document parse errors
    let comparable = !r.starts_with("docerr:") && !r.starts_with("err:") || *i == n;
    if comparable && *r != reference {
      println!("MISMATCH c14 {} call {}: concurrent {:?} vs sequential {:?}", idx, i, r, reference);
      return 1;
    }
  }
  let mut by_call: Vec<(usize, &String)> = conc.iter().map(|(_, i, r)| (*i, r)).collect();
  by_call.sort();
  for (i, r) in by_call {
    digest = fnv(digest, &[i as u8]);
    digest = fnv(digest, r.as_bytes());
  }
  // formatting of the AST (C12-ish: parse results must not depend on hash order either)
  digest = fnv(digest, ast.to_string().as_bytes());
  let mut order: Vec<(usize, usize)> = conc.iter().map(|(at, i, _)| (*at, *i)).collect();
  order.sort();
  let trace: Vec<String> = order.iter().map(|(_, i)| i.to_string()).collect();
  println!("RESULT c14 {} digest={:016x} trace={}", idx, digest, trace.join(""));
  0
}

const C17: &[&str] = &[
  "rec = {\n  created: tdate,\n  link: uri,\n  epoch: time,\n  ? alt: b64url,\n  legacy: b64legacy,\n  pat: regexp,\n}\nrec2 = { a: uri, b: tdate }\n",
  "root = { kind: kinds, extra: $ext }\nkinds = \"first\"\nkinds /= \"a\"\nkinds /= \"a-b\"\n$ext /= int\n$ext /= { x: int }\n$ext /= tstr\n",
  "node0 = { ? next: node1, items: [* node2], v: int }\nnode1 = { ? next: node2, ? other: node0, v: tstr }\nnode2 = { ? next: node0, v: bool }\nleaf = { a: int, ? b: leaf }\n",
  "thing = {\n  type: int,\n  first-name: tstr,\n  first_name: tstr,\n  firstName: tstr,\n  x-y: int,\n  x_y: int,\n  * tstr => any,\n}\nother = { * tstr => int, * int => tstr }\n",
  "status = \"active\" / \"in-active\" / \"in_active\"\nperson = { name: tstr, ? age: uint, status: status, tags: [* tstr], attrs: { * tstr => any }, ? address: address / nil }\naddress = { street: tstr, ? zip: tstr / uint }\n",
];

fn c17(idx: usize) -> i32 {
  let schema = C17[idx % C17.len()];
  let gen = |opts: &codegen::CodegenOptions| -> String {
    let ast = cddl::cddl_from_str(schema, false).expect("scenario schema parses");
    match codegen::generate_all_types(&ast, schema, opts) {
      Ok(s) => s,
      Err(e) => format!("ERR {}", e),
    }
  };
  let d = codegen::CodegenOptions::default();
  let mut o = codegen::CodegenOptions::default();
  o.non_exhaustive = true;
  o.other_variant = true;
  o.any_type = Some("ciborium::Value".into());
  let a1 = gen(&d);
  let b1 = gen(&o);
  let a2 = gen(&d);
  // on another thread: other hash keys, other thread identity
  let a3 = std::thread::scope(|s| s.spawn(|| gen(&d)).join().expect("gen thread"));
  if a1 != a2 || a1 != a3 {
    println!("MISMATCH c17 {}: two generations of the same input differ within one process", idx);
    return 1;
  }
  let mut digest = 0xcbf29ce484222325u64;
  digest = fnv(digest, a1.as_bytes());
  digest = fnv(digest, b1.as_bytes());
  println!("RESULT c17 {} digest={:016x} trace=-", idx, digest);
  0
}

/// "Twin" scenarios: several threads start the SAME calls at the same instant (barrier), so that state that
/// is filled lazily on first use (tables, caches, interned strings) is first used by all of them at once:
/// the classic check-then-act window. Documents grow, so every round touches indices / keys / literals
/// nobody has seen yet.
const TWIN: &[Scn] = &[
  // the first non-conforming element sits at index 0, 1, 2, ...: every small index shows up in an error location
  Scn { schema: "root = [* item]\nitem = uint / tstr .size 2\n", docs: &[('j', r#"["bad"]"#), ('j', r#"[1,"bad"]"#), ('j', r#"[1,2,"bad"]"#), ('j', r#"[1,2,3,true]"#), ('j', r#"[1,2,3,4,"bad!"]"#), ('j', r#"[1,2,3,4,5,null]"#), ('j', r#"[1,2,3,4,5,6,[7]]"#)] },
  // wide: more threads (see twin()), longer arrays: many first visits of new indices by several threads at once
  Scn { schema: "root = [* uint]\n", docs: &[('j', r#"[0,1,2,3,4,5,6,7,"x"]"#), ('j', r#"[0,1,2,3,4,5,6,7,8,9,10,11,12,13,14,15,"x"]"#), ('j', r#"[0,"x"]"#), ('j', r#"[0,1,2,3,"x"]"#), ('j', r#"[0,1,2,3,4,5,6,7,8,9,10,11,"x"]"#), ('j', r#"[0,1,2,3,4,5,6,7,8,9,10,11,12,13,14,15,16,17,18,19,20,21,22,23,"x"]"#), ('j', r#"[0,1,2,3,4,5,6,7,8,9,10,11,12,13,14,15,16,17,18,19,"x"]"#)] },
  Scn { schema: "root = { * tstr => v }\nv = int / [* v] / { * tstr => v }\n", docs: &[('j', r#"{"a":1,"b":"x"}"#), ('j', r#"{"a":[1,[2,"y"]],"c":{"d":{"e":null}}}"#), ('j', r#"{"k1":1,"k2":2,"k3":[0,1,2,3.5]}"#)] },
  Scn { schema: "root = [* t]\nt = tstr .regexp \"[a-f]+\" / uri / tdate\n", docs: &[('j', r#"["abc","urn:a:b","zzz"]"#), ('j', r#"["2020-01-01T00:00:00Z","abcdef","x:","no"]"#), ('c', "8263616263617a")] },
];

fn twin(idx: usize, sequential: bool) -> i32 {
  let scn = &TWIN[idx % TWIN.len()];
  let nthreads = if idx % TWIN.len() == 1 { 6usize } else { 3usize };
  let barrier = std::sync::Barrier::new(nthreads);
  let ast = cddl::cddl_from_str(scn.schema, false).expect("twin schema parses");
  let mut all: Vec<Vec<String>> = Vec::new();
  if sequential {
    for _ in 0..nthreads {
      all.push(scn.docs.iter().map(|(k, d)| call_shared(&ast, *k, d)).collect());
    }
  } else {
    std::thread::scope(|s| {
      let hs: Vec<_> = (0..nthreads)
        .map(|_| {
          let barrier = &barrier;
          let ast = &ast;
          s.spawn(move || {
            let mut out = Vec::new();
            for (k, d) in scn.docs.iter() {
              // everything that can be prepared is prepared before the barrier (document parsed, validator
              // built), so that the threads enter the validator within a few basic blocks of each other
              match *k {
                'j' => match serde_json::from_str::<serde_json::Value>(d) {
                  Ok(v) => {
                    let mut jv = cddl::validator::json::JSONValidator::new(ast, v, None);
                    barrier.wait();
                    out.push(json_resp(jv.validate()));
                  }
                  Err(e) => {
                    barrier.wait();
                    out.push(format!("docerr:{}", e));
                  }
                },
                _ => match cddl::validator::cbor_value::decode_cbor(&hexd(d)) {
                  Ok(v) => {
                    let mut cv = cddl::validator::cbor::CBORValidator::new(ast, v, None);
                    barrier.wait();
                    out.push(cbor_resp(cv.validate()));
                  }
                  Err(e) => {
                    barrier.wait();
                    out.push(format!("docerr:{}", e));
                  }
                },
              }
            }
            out
          })
        })
        .collect();
      for h in hs {
        all.push(h.join().expect("twin thread"));
      }
    });
  }
  // every thread made the same calls: all must have seen the same responses ...
  for t in 1..all.len() {
    if all[t] != all[0] {
      let i = (0..all[0].len()).find(|i| all[t][*i] != all[0][*i]).unwrap_or(0);
      println!("MISMATCH twin {} call {}: thread {} got {:?} but thread 0 got {:?}", idx, i, t, all[t][i], all[0][i]);
      return 1;
    }
  }
  // ... and the same as a later sequential call
  for (i, (k, d)) in scn.docs.iter().enumerate() {
    let r = call_shared(&ast, *k, d);
    if r != all[0][i] {
      println!("MISMATCH twin {} call {}: concurrent {:?} vs sequential afterwards {:?}", idx, i, all[0][i], r);
      return 1;
    }
  }
  let mut digest = 0xcbf29ce484222325u64;
  for r in &all[0] {
    digest = fnv(digest, r.as_bytes());
  }
  println!("RESULT twin {} digest={:016x} trace=-", idx, digest);
  0
}

fn main() {
  let args: Vec<String> = std::env::args().collect();
  let kind = args.get(1).map(|s| s.as_str()).unwrap_or("list");
  let idx: usize = args.get(2).and_then(|s| s.parse().ok()).unwrap_or(0);
  let code = match kind {
    "c14" => c14(idx),
    "c17" => c17(idx),
    "twin" => twin(idx, false),
    // the same calls without concurrency: the digest every concurrent execution must reproduce
    "twinseq" => twin(idx, true),
    _ => {
      println!("c14 {} c17 {} twin {}", C14.len(), C17.len(), TWIN.len());
      0
    }
  };
  std::process::exit(code);
}
