#!/bin/bash
# tools/run_seeded.sh [id ...]   apply each seeded change to /repo, run the quick check of its property,
# revert, and say whether the check raised a VIOLATION. Sensitivity regression for the checks themselves;
# never run it while anything else builds from /repo (it edits the working tree and restores it).
cd "$(dirname "$0")/.."
mkdir -p sweep-out
ids=("$@")
if [ ${#ids[@]} -eq 0 ]; then ids=($(ls seeded)); fi
if [ -n "$(git -C /repo status --porcelain --untracked-files=no)" ]; then echo "/repo has local changes: refusing" >&2; exit 2; fi
for id in "${ids[@]}"; do
  prop=$(python3 -c "import json,sys; print(json.load(open('seeded/$id/meta.json')).get('property','${id%%-*}'))" 2>/dev/null || echo "${id%%-*}")
  prop=${prop:0:3}
  git -C /repo apply "$(pwd)/seeded/$id/patch.diff" || { echo "$id: patch does not apply"; continue; }
  if [ "$id" = "own-M1" ]; then VERIF_RUNS=20 ./check $prop quick > sweep-out/seeded-$id.log 2>&1; else VERIF_NO_MIRI=1 ./check $prop quick > sweep-out/seeded-$id.log 2>&1; fi
  rc=$?
  git -C /repo checkout -- .
  n=$(grep -c '^VIOLATION' sweep-out/seeded-$id.log)
  echo "$id property=$prop exit=$rc violations=$n :: $(grep -m1 'violation class' sweep-out/seeded-$id.log | cut -c1-140)"
done
./check setup > /dev/null
