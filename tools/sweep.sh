#!/bin/bash
# tools/sweep.sh <ID> <first seed> <last seed> [quick|thorough]
# Runs one check over a range of VERIF_SEED values (from this directory's tree) and summarises alarms.
# Used while building, to saturate the list of genuine defects before known_findings.json is frozen.
cd "$(dirname "$0")/.."
id=$1; a=$2; b=$3; tier=${4:-quick}
mkdir -p sweep-out
for s in $(seq $a $b); do
  VERIF_SEED=$s ./check $id $tier > sweep-out/$id-$s.log 2>&1
  echo "seed=$s exit=$? $(grep -c '^VIOLATION' sweep-out/$id-$s.log) violations :: $(tail -n 1 sweep-out/$id-$s.log | cut -c1-160)"
  grep -A0 -B1 '^VIOLATION' sweep-out/$id-$s.log | cut -c1-400
done
