//! C18 — the command-line tool reports exactly what the library decides.
//!
//! Process-level simulation: the real `cddl` binary built from /repo's working tree is executed against a
//! *world* the simulator builds from the seed in a private directory (file table with file-system faults:
//! missing, directory in place of a file, dangling symlink, empty, non-UTF-8, truncated; stdin bytes;
//! argv with permuted routes, repeated flags and comma lists, --ci, --features, --csv-header).
//! Oracle: the library calls made by the harness in-process with the same feature list and header flag,
//! plus a small reference model of which documents the tool gets to (it stops at the first failure under
//! --ci and at the first unreadable file).

use crate::cborref::EncCfg;
use crate::gen::*;
use crate::kernel::*;
use crate::minimize::{ddmin, Budget};
use crate::rng::{fnv, fnv_add, Rng};
use serde_json::{json, Value};
use std::io::Write;
use std::process::{Command, Stdio};

pub struct C18;
pub static C18_CHECK: C18 = C18;

#[derive(Clone, Debug, PartialEq)]
pub enum Node {
  File(Vec<u8>),
  Dir,
  Absent,
  DanglingSymlink,
}

#[derive(Clone, Debug)]
pub struct DocArg {
  /// "json" | "cbor" | "csv"
  pub route: String,
  pub name: String,
  pub node: Node,
  /// provenance: conforming / non-conforming / malformed / empty / truncated / missing / directory / non-utf8
  pub state: String,
}

#[derive(Clone, Debug)]
pub struct World {
  /// "validate" | "compile-cddl"
  pub cmd: String,
  pub schema_name: String,
  pub schema: Node,
  pub schema_state: String,
  pub docs: Vec<DocArg>,
  pub stdin: Option<Vec<u8>>,
  pub ci: bool,
  pub features: Option<Vec<String>>,
  pub csv_header: bool,
  /// the exact argument vector (after the program name)
  pub argv: Vec<String>,
}

fn node_to_json(n: &Node) -> Value {
  match n {
    Node::File(b) => match std::str::from_utf8(b) {
      Ok(s) => json!({"file": {"text": s}}),
      Err(_) => json!({"file": {"hex": hex(b)}}),
    },
    Node::Dir => json!("directory"),
    Node::Absent => json!("absent"),
    Node::DanglingSymlink => json!("dangling-symlink"),
  }
}

fn node_from_json(v: &Value) -> Node {
  if let Some(f) = v.get("file") {
    if let Some(s) = f["text"].as_str() {
      return Node::File(s.as_bytes().to_vec());
    }
    return Node::File(unhex(f["hex"].as_str().unwrap_or("")));
  }
  match v.as_str() {
    Some("directory") => Node::Dir,
    Some("dangling-symlink") => Node::DanglingSymlink,
    _ => Node::Absent,
  }
}

impl World {
  pub fn to_json(&self) -> Value {
    json!({
      "cmd": self.cmd,
      "schema_name": self.schema_name,
      "schema": node_to_json(&self.schema),
      "schema_state": self.schema_state,
      "docs": self.docs.iter().map(|d| json!({"route": d.route, "name": d.name, "node": node_to_json(&d.node), "state": d.state})).collect::<Vec<_>>(),
      "stdin": self.stdin.as_ref().map(|b| match std::str::from_utf8(b) { Ok(s) => json!({"text": s}), Err(_) => json!({"hex": hex(b)}) }),
      "ci": self.ci,
      "features": self.features,
      "csv_header": self.csv_header,
      "argv": self.argv,
    })
  }
  pub fn from_json(v: &Value) -> World {
    World {
      cmd: v["cmd"].as_str().unwrap_or("validate").to_string(),
      schema_name: v["schema_name"].as_str().unwrap_or("s.cddl").to_string(),
      schema: node_from_json(&v["schema"]),
      schema_state: v["schema_state"].as_str().unwrap_or("").to_string(),
      docs: v["docs"]
        .as_array()
        .map(|a| {
          a.iter()
            .map(|d| DocArg {
              route: d["route"].as_str().unwrap_or("json").to_string(),
              name: d["name"].as_str().unwrap_or("").to_string(),
              node: node_from_json(&d["node"]),
              state: d["state"].as_str().unwrap_or("").to_string(),
            })
            .collect()
        })
        .unwrap_or_default(),
      stdin: if v["stdin"].is_null() {
        None
      } else if let Some(s) = v["stdin"]["text"].as_str() {
        Some(s.as_bytes().to_vec())
      } else {
        Some(unhex(v["stdin"]["hex"].as_str().unwrap_or("")))
      },
      ci: v["ci"].as_bool().unwrap_or(false),
      features: v["features"].as_array().map(|a| a.iter().filter_map(|x| x.as_str().map(|s| s.to_string())).collect()),
      csv_header: v["csv_header"].as_bool().unwrap_or(false),
      argv: v["argv"].as_array().map(|a| a.iter().filter_map(|x| x.as_str().map(|s| s.to_string())).collect()).unwrap_or_default(),
    }
  }

  /// Canonical argv for the structured fields (used by the minimiser): one flag per file, routes in the
  /// tool's own processing order.
  pub fn canonical_argv(&self) -> Vec<String> {
    let mut a = Vec::new();
    if self.ci {
      a.push("--ci".to_string());
    }
    a.push(self.cmd.clone());
    a.push("--cddl".into());
    a.push(self.schema_name.clone());
    if self.cmd != "validate" {
      return a;
    }
    if let Some(f) = &self.features {
      a.push("--features".into());
      a.push(f.join(","));
    }
    for d in &self.docs {
      a.push(format!("--{}", d.route));
      a.push(d.name.clone());
    }
    if self.csv_header {
      a.push("--csv-header".into());
    }
    if self.stdin.is_some() {
      a.push("--stdin".into());
    }
    a
  }
}

// ------------------------------------------------------------------------------------------------
// world construction

fn nonutf8(r: &mut Rng, b: &[u8]) -> Vec<u8> {
  let mut v = b.to_vec();
  let at = r.below(v.len() + 1);
  v.insert(at, *r.pick(&[0xffu8, 0xfe, 0xc0, 0x80]));
  v
}

pub fn build_world(seed: u64, idx: u64, out: &mut RunOut) -> World {
  let mut rw = Rng::stream(seed, "c18", idx, "workload");
  let mut rf = Rng::stream(seed, "c18", idx, "faults");
  let mut rk = Rng::stream(seed, "c18", idx, "knobs");
  let dcfg = DocCfg { cbor_only: false, max_depth: rk.range(1, 3), max_children: rk.range(1, 4), floats: rk.coin(), edge_numbers: rk.coin(), long_strings: false };
  let enc = EncCfg::swarm(&mut rk);
  // a document and a schema inferred from it, with feature-gated alternatives so that --features matters
  let mut doc = gen_doc(&mut rw, &dcfg, 0);
  let mut scfg = SchemaCfg::swarm(&mut rk);
  scfg.hazards = false;
  scfg.features = rk.chance(2, 3);
  let (schema_text, csv_schema) = if rk.chance(1, 4) {
    // hand-written feature schemas with documents that meet the gated alternatives: the verdict flips
    // with the feature list (one, several per line, controller given by a rule name, on the next line,
    // as a byte string; rows of a CSV)
    let i = |n: i128| Doc::Int(n);
    let tx = |s: &str| Doc::Text(s.to_string());
    let m = |v: Vec<(&str, Doc)>| Doc::Map(v.into_iter().map(|(k, d)| (Doc::Text(k.to_string()), d)).collect());
    let table: Vec<(&str, Vec<Doc>)> = vec![
      ("root = int .feature \"featx\"\n", vec![i(1), tx("s")]),
      ("root = [* (int .feature \"featx\") / tstr]\n", vec![Doc::Array(vec![i(1), tx("a")]), Doc::Array(vec![Doc::Float(1.5)]), Doc::Array(vec![Doc::Bool(true)])]),
      (
        "root = { a: (tstr .feature \"featx\") / int, ? b: (uint .feature \"other\") / bool }\n",
        vec![m(vec![("a", tx("x")), ("b", i(1))]), m(vec![("a", Doc::Float(1.5))]), m(vec![("a", i(1)), ("b", tx("s"))]), m(vec![("a", i(1)), ("b", i(-1))])],
      ),
      ("root = { ? a: int .feature \"other\", ? b: tstr .feature \"featx\" }\n", vec![m(vec![("a", i(1)), ("b", tx("s"))]), m(vec![("b", i(5))]), m(vec![("a", tx("x"))])]),
      ("root = { v: tstr .feature fname }\nfname = \"featx\"\n", vec![m(vec![("v", tx("s"))]), m(vec![("v", i(1))])]),
      ("root = { v: uint .feature\n  \"featx\", w: tstr .feature \"other\" }\n", vec![m(vec![("v", i(1)), ("w", tx("s"))]), m(vec![("v", tx("x")), ("w", tx("s"))]), m(vec![("v", i(1)), ("w", i(2))])]),
      ("root = { note: \"a;b\", v: int .feature \"featx\" }\n", vec![m(vec![("note", tx("a;b")), ("v", i(1))]), m(vec![("note", tx("a;b")), ("v", tx("s"))])]),
      ("root = [* row]\nrow = [int .feature \"featx\", tstr]\n", vec![Doc::Array(vec![Doc::Array(vec![i(1), tx("a")]), Doc::Array(vec![i(2), tx("b")])]), Doc::Array(vec![Doc::Array(vec![tx("x"), tx("a")])])]),
      ("root = (tstr / int) .feature \"featx\"\n", vec![i(1), tx("s"), Doc::Bool(true)]),
      ("root = [* any]\n", vec![Doc::Array(vec![i(1)]), i(3)]),
      ("root = [* int / tstr / bstr]\n", vec![Doc::Array(vec![i(1), tx("a")]), Doc::Array(vec![Doc::Null])]),
      ("root = any\n", vec![i(1)]),
    ];
    let (sch, docs) = rw.pick(&table).clone();
    doc = rw.pick(&docs).clone();
    (sch.to_string(), None)
  } else {
    let mut g = SchemaGen::new(&mut rw, scfg.clone());
    let root = g.ty(&doc, 0);
    (g.finish(root), None::<String>)
  };
  let _ = csv_schema;
  // CSV-oriented worlds: rows of numbers and text, a schema inferred from the rows as the CSV mapping sees
  // them WITHOUT a header (every row coerced) or WITH one (first row kept as text): the verdict then
  // depends on --csv-header
  let csv_oriented = rk.chance(1, 4);
  let (schema_text, csv_body) = if csv_oriented {
    let mut body = gen_csv_doc(&mut rw, &dcfg);
    if let Doc::Array(rows) = &mut body {
      if rows.is_empty() {
        rows.push(Doc::Array(vec![Doc::Int(1), Doc::Text("a".into())]));
      }
      if rk.coin() {
        // a first row that looks numeric but is meant as a header
        let n = match &rows[0] {
          Doc::Array(f) => f.len().max(1),
          _ => 1,
        };
        rows.insert(0, Doc::Array((0..n).map(|k| if rk.coin() { Doc::Int(k as i128 + 1) } else { Doc::Text(format!("col{}", k)) }).collect()));
      }
    }
    let as_seen = if rk.coin() {
      // header interpretation: the first row stays text
      let mut d = body.clone();
      if let Doc::Array(rows) = &mut d {
        if let Some(Doc::Array(f)) = rows.first_mut() {
          for x in f.iter_mut() {
            let nx = match &*x {
              Doc::Int(n) => Doc::Text(n.to_string()),
              Doc::Float(v) => Doc::Text(format!("{:?}", v)),
              other => other.clone(),
            };
            *x = nx;
          }
        }
      }
      d
    } else {
      body.clone()
    };
    let mut sc = scfg.clone();
    sc.hoist = false;
    let mut g = SchemaGen::new(&mut rw, sc);
    let root = g.ty(&as_seen, 0);
    doc = body.clone();
    out.probe("csv_oriented_world");
    (g.finish(root), Some(body))
  } else {
    (schema_text, None)
  };
  let ci = rk.chance(1, 2);
  let features = match rk.below(4) {
    0 => None,
    1 => Some(vec!["featx".to_string()]),
    2 => Some(vec!["other".to_string(), "featx".to_string()]),
    _ => Some(vec!["other".to_string()]),
  };
  let cmd = if rk.chance(1, 7) { "compile-cddl" } else { "validate" };
  // schema state
  let (schema, schema_state) = match rf.weighted(&[14, 3, 1, 1, 1, 1]) {
    0 => (Node::File(schema_text.clone().into_bytes()), "valid"),
    1 => {
      let mut s = schema_text.clone();
      // sometimes the defect sits far into the file (beyond any plausible read cap) and / or on a last line
      // without a newline; first-stage (syntax) and second-stage (duplicate rule, undefined reference) errors
      if rf.chance(1, 4) {
        for k in 0..rf.range(200, 3000) {
          s.push_str(&format!("; padding line {} ........................................\n", k));
        }
      }
      s.push_str(*rf.pick(&["x = [1, 2\n", "= int\n", "y = {a: \n", "z = #6.(\n", "root = int\n", "u = undefined-thing\n", "x = [1, 2", "u2 = [undefined-a, undefined-b]", "root = tstr", "dup-r = 1\ndup-r = 2"]));
      (Node::File(s.into_bytes()), "invalid")
    }
    2 => (Node::Absent, "missing"),
    3 => (Node::Dir, "directory"),
    4 => (Node::File(nonutf8(&mut rf, schema_text.as_bytes())), "non-utf8"),
    _ => (Node::File(Vec::new()), "empty"),
  };
  // the schema file framed the way editors leave files: BOM, CRLF, exotic white space at either end, a
  // comment without a final newline - the tool must hand the parser exactly the file's text
  let (schema, schema_state) = match (&schema, schema_state) {
    (Node::File(b), "valid") | (Node::File(b), "invalid") if rf.chance(1, 6) => {
      let mut t = b.clone();
      match rf.below(6) {
        0 => {
          let mut x = vec![0xef, 0xbb, 0xbf];
          x.extend_from_slice(&t);
          t = x;
        }
        1 => t = String::from_utf8_lossy(&t).replace('\n', "\r\n").into_bytes(),
        2 => t.extend_from_slice("\u{c}".as_bytes()),
        3 => {
          let mut x = "\u{a0}".as_bytes().to_vec();
          x.extend_from_slice(&t);
          t = x;
        }
        4 => t.extend_from_slice(b"; trailing comment without newline"),
        _ => t.extend_from_slice("\u{2028}".as_bytes()),
      }
      (Node::File(t), schema_state)
    }
    _ => (schema.clone(), schema_state),
  };
  out.fault(match schema_state {
    "valid" => "schema_valid",
    "invalid" => "schema_invalid",
    "missing" => "schema_missing",
    "directory" => "schema_is_directory",
    "non-utf8" => "schema_non_utf8",
    _ => "schema_empty",
  });
  let mut w = World {
    cmd: cmd.to_string(),
    schema_name: "s.cddl".into(),
    schema,
    schema_state: schema_state.to_string(),
    docs: vec![],
    stdin: None,
    ci,
    features,
    csv_header: if csv_oriented { rk.coin() } else { rk.chance(1, 3) },
    argv: vec![],
  };
  if cmd == "validate" {
    // documents per route
    let mut n_docs = 0;
    for route in ["json", "cbor", "csv"] {
      let n = if csv_body.is_some() { if route == "csv" { rk.range(2, 3) } else { rk.weighted(&[6, 2, 1, 0]) } } else { rk.weighted(&[4, 4, 3, 1]) };
      for i in 0..n {
        let shown = match if csv_body.is_some() && route == "csv" { rw.weighted(&[4, 1, 1]) } else { rw.below(3) } {
          0 => doc.clone(),
          1 => vary(&mut rw, &dcfg, &doc),
          _ => perturb(&mut rw, &dcfg, &doc),
        };
        let bytes = match route {
          "json" => to_json(&shown).into_bytes(),
          "cbor" => {
            let mut b = Vec::new();
            to_cbor(&shown, &mut b, &enc, &mut rw);
            b
          }
          _ => {
            if csv_body.is_none() && rw.coin() {
              to_csv(&gen_csv_doc(&mut rw, &dcfg), &mut rw).into_bytes()
            } else {
              // a CSV rendering of the document when it is an array of rows, else some CSV
              to_csv(&shown, &mut rw).into_bytes()
            }
          }
        };
        let (node, state) = match rf.weighted(&[12, 2, 2, 1, 1, 1, 1, 3]) {
          7 if route != "cbor" => {
            // the same document as real producers frame it: BOM, CRLF line ends, trailing / leading white
            // space, an embedded NUL - whatever the tool does to the bytes, the library must be given the same
            let mut b = bytes.clone();
            match rf.below(8) {
              6 | 7 => {
                // white space that is NOT white space to the JSON / CSV grammar, before or after the document:
                // form feed, vertical tab, NEL, NBSP, LINE SEPARATOR, IDEOGRAPHIC SPACE, ZERO WIDTH SPACE
                let ws = *rf.pick(&["\u{c}", "\u{b}", "\u{85}", "\u{a0}", "\u{2028}", "\u{3000}", "\u{200b}", "\u{feff}"]);
                if rf.coin() {
                  b.extend_from_slice(ws.as_bytes());
                } else {
                  let mut x = ws.as_bytes().to_vec();
                  x.extend_from_slice(&b);
                  b = x;
                }
              }
              0 => {
                let mut x = vec![0xef, 0xbb, 0xbf];
                x.extend_from_slice(&b);
                b = x;
              }
              1 => b = String::from_utf8_lossy(&b).replace('\n', "\r\n").into_bytes(),
              2 => b.extend_from_slice(b"\n\n"),
              3 => {
                let mut x = b" \n".to_vec();
                x.extend_from_slice(&b);
                b = x;
              }
              4 => {
                let at = rf.below(b.len() + 1);
                b.insert(at, 0);
              }
              _ => {
                while b.last() == Some(&b'\n') || b.last() == Some(&b'\r') {
                  b.pop();
                }
              }
            }
            (Node::File(b), "reframed")
          }
          0 | 7 => (Node::File(bytes), "as-generated"),
          1 => (Node::Absent, "missing"),
          2 => {
            let k = if bytes.len() > 1 { rf.range(1, bytes.len() - 1) } else { 0 };
            (Node::File(bytes[..k].to_vec()), "truncated")
          }
          3 => (Node::File(Vec::new()), "empty"),
          4 => (Node::Dir, "directory"),
          5 => (Node::File(nonutf8(&mut rf, &bytes)), "non-utf8"),
          _ => (Node::DanglingSymlink, "dangling-symlink"),
        };
        out.fault(match state {
          "as-generated" => "doc_intact",
          "reframed" => "doc_reframed_bom_crlf_nul_whitespace",
          "missing" => "doc_missing",
          "truncated" => "doc_truncated",
          "empty" => "doc_empty",
          "directory" => "doc_is_directory",
          "non-utf8" => "doc_non_utf8",
          _ => "doc_dangling_symlink",
        });
        w.docs.push(DocArg { route: route.to_string(), name: format!("d{}{}.{}", i, &route[..1], route), node, state: state.to_string() });
        n_docs += 1;
      }
    }
    if n_docs == 0 || rk.chance(2, 5) {
      let shown = if rw.coin() { doc.clone() } else { perturb(&mut rw, &dcfg, &doc) };
      let edge_int = *rf.pick(&[9i128, 10, 12, 13, 32, -1, -10, -14]);
      let b = match rf.below(10) {
        0 | 1 => to_json(&shown).into_bytes(),
        2 => {
          let mut b = Vec::new();
          to_cbor(&shown, &mut b, &enc, &mut rw);
          b
        }
        3 => Vec::new(),
        4 => to_cbor_min(&Doc::Int(rw.below(24) as i128)), // CBOR that is also valid UTF-8
        5 => {
          // JSON surrounded by the white space real producers emit
          let mut b = (*rf.pick(&["", " ", "\n", "\r\n", "\t", "\u{c}", "\u{feff}"])).as_bytes().to_vec();
          b.extend_from_slice(to_json(&shown).as_bytes());
          b.extend_from_slice((*rf.pick(&["\n", "\r\n", " ", "\n\n", "\u{c}", ""])).as_bytes());
          b
        }
        6 | 7 => {
          // CBOR (not UTF-8) whose last byte is an ASCII white-space value: [.., 9|10|12|13|32] or a text ending in one
          let d = if rf.coin() { Doc::Array(vec![shown.clone(), Doc::Int(edge_int)]) } else { Doc::Array(vec![Doc::Bytes(vec![0xff]), Doc::Text(format!("x{}", rf.pick(&[" ", "\n", "\t", "\r"])))]) };
          to_cbor_min(&d)
        }
        8 => {
          // CBOR whose first byte is an ASCII white-space value (uint 9, 10, 12, 13; nint -1 is 0x20) followed by junk
          let mut b = to_cbor_min(&Doc::Int(edge_int));
          b.push(0xff);
          b
        }
        _ => to_cbor_min(&Doc::Array(vec![Doc::Int(edge_int)])),
      };
      out.fault("stdin_supplied");
      w.stdin = Some(b);
    }
  }
  // argv: the tool's processing order is fixed (json, cbor, csv, stdin); the order and grouping on the
  // command line is not
  let mut a: Vec<String> = Vec::new();
  if w.ci {
    a.push("--ci".into());
  }
  a.push(w.cmd.clone());
  let mut groups: Vec<Vec<String>> = Vec::new();
  groups.push(vec![(*rk.pick(&["--cddl", "-d"])).to_string(), w.schema_name.clone()]);
  if w.cmd == "validate" {
    if let Some(f) = &w.features {
      groups.push(vec![(*rk.pick(&["--features", "-f"])).to_string(), f.join(",")]);
    }
    for route in ["json", "cbor", "csv"] {
      let names: Vec<String> = w.docs.iter().filter(|d| d.route == route).map(|d| d.name.clone()).collect();
      if names.is_empty() {
        continue;
      }
      if names.len() > 1 && rk.coin() {
        groups.push(vec![format!("--{}", route), names.join(",")]);
      } else {
        // repeated flags must stay in order among themselves: keep them in one group
        let mut g = Vec::new();
        for n in names {
          g.push(format!("--{}", route));
          g.push(n);
        }
        groups.push(g);
      }
    }
    if w.csv_header {
      groups.push(vec!["--csv-header".into()]);
    }
    if w.stdin.is_some() {
      groups.push(vec!["--stdin".into()]);
    }
  } else {
    groups[0][0] = (*rk.pick(&["--cddl", "-c"])).to_string();
  }
  rk.shuffle(&mut groups);
  for g in groups {
    a.extend(g);
  }
  w.argv = a;
  w
}

// ------------------------------------------------------------------------------------------------
// execution of the real binary in a private directory

pub struct ToolOut {
  pub exit: Option<i32>,
  pub text: String,
  pub spawn_error: Option<String>,
}

fn cli_path() -> String {
  std::env::var("VERIF_CLI").unwrap_or_else(|_| crate::report::verif_dir().join("target/repo/debug/cddl").to_string_lossy().to_string())
}

static WORLD_SEQ: std::sync::atomic::AtomicU64 = std::sync::atomic::AtomicU64::new(0);

fn materialise(dir: &std::path::Path, name: &str, n: &Node) -> std::io::Result<()> {
  let p = dir.join(name);
  match n {
    Node::File(b) => std::fs::write(&p, b),
    Node::Dir => std::fs::create_dir(&p),
    Node::Absent => Ok(()),
    Node::DanglingSymlink => std::os::unix::fs::symlink(dir.join("nowhere-at-all"), &p),
  }
}

pub fn run_tool(w: &World) -> ToolOut {
  let base = std::env::var("VERIF_WORLDS").map(std::path::PathBuf::from).unwrap_or_else(|_| crate::report::verif_dir().join("target/worlds"));
  let dir = base.join(format!("{}-{}", std::process::id(), WORLD_SEQ.fetch_add(1, std::sync::atomic::Ordering::SeqCst)));
  let _ = std::fs::remove_dir_all(&dir);
  let fail = |e: String| ToolOut { exit: None, text: String::new(), spawn_error: Some(e) };
  if let Err(e) = std::fs::create_dir_all(&dir) {
    return fail(format!("create world dir: {}", e));
  }
  let mut r = (|| -> Result<ToolOut, String> {
    materialise(&dir, &w.schema_name, &w.schema).map_err(|e| format!("schema: {}", e))?;
    for d in &w.docs {
      materialise(&dir, &d.name, &d.node).map_err(|e| format!("{}: {}", d.name, e))?;
    }
    let outp = dir.join("__out.txt");
    let of = std::fs::File::create(&outp).map_err(|e| e.to_string())?;
    let of2 = of.try_clone().map_err(|e| e.to_string())?;
    let mut child = Command::new(cli_path())
      .args(&w.argv)
      .current_dir(&dir)
      .env("NO_COLOR", "1")
      .env_remove("RUST_LOG")
      .env_remove("RUST_BACKTRACE")
      .stdin(if w.stdin.is_some() { Stdio::piped() } else { Stdio::null() })
      .stdout(Stdio::from(of))
      .stderr(Stdio::from(of2))
      .spawn()
      .map_err(|e| format!("spawn {}: {}", cli_path(), e))?;
    if let Some(b) = &w.stdin {
      if let Some(mut si) = child.stdin.take() {
        let _ = si.write_all(b);
      }
    }
    let st = child.wait().map_err(|e| e.to_string())?;
    let text = String::from_utf8_lossy(&std::fs::read(&outp).unwrap_or_default()).to_string();
    use std::os::unix::process::ExitStatusExt;
    let exit = st.code().or_else(|| st.signal().map(|s| 128 + s));
    Ok(ToolOut { exit, text, spawn_error: None })
  })();
  let _ = std::fs::remove_dir_all(&dir);
  match r.as_mut() {
    Ok(_) => r.unwrap(),
    Err(e) => fail(e.clone()),
  }
}

fn strip_ansi(s: &str) -> String {
  let mut out = String::with_capacity(s.len());
  let mut it = s.chars().peekable();
  while let Some(c) = it.next() {
    if c == '\u{1b}' {
      if it.peek() == Some(&'[') {
        it.next();
        for d in it.by_ref() {
          if d.is_ascii_alphabetic() {
            break;
          }
        }
      }
      continue;
    }
    out.push(c);
  }
  out
}

#[derive(Debug, Clone, PartialEq)]
pub enum Event {
  /// (path or "<stdin>", success?)
  Report(String, bool),
  Missing(String),
  SchemaMissing,
}

/// The report lines of the tool, in output order.
pub fn parse_events(text: &str) -> Vec<Event> {
  let mut ev = Vec::new();
  for line in strip_ansi(text).lines() {
    let l = match line.find("] ") {
      Some(p) if line.starts_with('[') => &line[p + 2..],
      _ => continue,
    };
    if let Some(rest) = l.strip_prefix("Validation of \"") {
      if let Some(q) = rest.find('"') {
        let path = &rest[..q];
        let tail = &rest[q + 1..];
        if tail.starts_with(" is successful") {
          ev.push(Event::Report(path.to_string(), true));
        } else if tail.starts_with(" failed") {
          ev.push(Event::Report(path.to_string(), false));
        }
      }
    } else if l.starts_with("Validation from stdin is successful") {
      ev.push(Event::Report("<stdin>".into(), true));
    } else if l.starts_with("Validation from stdin failed") {
      ev.push(Event::Report("<stdin>".into(), false));
    } else if l.starts_with("CDDL document \"") && l.contains("does not exist") {
      ev.push(Event::SchemaMissing);
    } else if l.contains("\" does not exist") {
      if let Some(a) = l.find('"') {
        if let Some(b) = l[a + 1..].find('"') {
          ev.push(Event::Missing(l[a + 1..a + 1 + b].to_string()));
        }
      }
    }
  }
  ev
}

// ------------------------------------------------------------------------------------------------
// the reference model

#[derive(Debug, Clone, PartialEq)]
pub enum Fate {
  /// the library verdict for this document
  Verdict(bool),
  Missing,
  Unreadable,
  /// the library call itself panicked in the harness: nothing is expected of the tool for this document
  Unknown,
}

pub struct Model {
  /// the schema can be read and compiles
  pub schema_usable: bool,
  pub schema_missing: bool,
  /// documents in the tool's processing order: (label, fate)
  pub fates: Vec<(String, Fate)>,
  /// index of the first document at which the tool must stop (None: it gets through all of them)
  pub stop_at: Option<usize>,
}

fn lib_verdict(schema: &str, d: &DocArg, bytes: &[u8], w: &World) -> Fate {
  let feats_owned: Option<Vec<&str>> = w.features.as_ref().map(|f| f.iter().map(|s| s.as_str()).collect());
  let feats: Option<&[&str]> = feats_owned.as_deref();
  let r = guarded(|| match d.route.as_str() {
    "json" => match std::str::from_utf8(bytes) {
      Ok(s) => Fate::Verdict(cddl::validate_json_from_str(schema, s, feats).is_ok()),
      Err(_) => Fate::Unreadable,
    },
    "cbor" => Fate::Verdict(cddl::validate_cbor_from_slice(schema, bytes, feats).is_ok()),
    _ => match std::str::from_utf8(bytes) {
      Ok(s) => Fate::Verdict(cddl::validate_csv_from_str(schema, s, if w.csv_header { Some(true) } else { None }, feats).is_ok()),
      Err(_) => Fate::Unreadable,
    },
  });
  r.unwrap_or(Fate::Unknown)
}

pub fn model(w: &World) -> Model {
  let mut m = Model { schema_usable: false, schema_missing: false, fates: vec![], stop_at: None };
  let schema = match &w.schema {
    Node::File(b) => match std::str::from_utf8(b) {
      Ok(s) => s.to_string(),
      Err(_) => return m,
    },
    Node::Dir => return m,
    Node::Absent | Node::DanglingSymlink => {
      m.schema_missing = true;
      return m;
    }
  };
  m.schema_usable = guarded(|| cddl::cddl_from_str(&schema, false).is_ok()).unwrap_or(false);
  if !m.schema_usable || w.cmd != "validate" {
    return m;
  }
  for route in ["json", "cbor", "csv"] {
    for d in w.docs.iter().filter(|d| d.route == route) {
      let fate = match &d.node {
        Node::Absent | Node::DanglingSymlink => Fate::Missing,
        Node::Dir => Fate::Unreadable,
        Node::File(b) => lib_verdict(&schema, d, b, w),
      };
      m.fates.push((d.name.clone(), fate));
    }
  }
  if let Some(b) = &w.stdin {
    let feats_owned: Option<Vec<&str>> = w.features.as_ref().map(|f| f.iter().map(|s| s.as_str()).collect());
    let feats: Option<&[&str]> = feats_owned.as_deref();
    let fate = guarded(|| match std::str::from_utf8(b) {
      Ok(s) => Fate::Verdict(cddl::validate_json_from_str(&schema, s, feats).is_ok()),
      Err(_) => Fate::Verdict(cddl::validate_cbor_from_slice(&schema, b, feats).is_ok()),
    })
    .unwrap_or(Fate::Unknown);
    m.fates.push(("<stdin>".into(), fate));
  }
  for (i, (_, f)) in m.fates.iter().enumerate() {
    let stops = match f {
      Fate::Unreadable | Fate::Unknown => true,
      Fate::Missing | Fate::Verdict(false) => w.ci,
      Fate::Verdict(true) => false,
    };
    if stops {
      m.stop_at = Some(i);
      break;
    }
  }
  m
}

/// Compare what the tool did with what the library decides. Returns (class, signature, detail).
pub fn judge(w: &World, t: &ToolOut) -> Vec<(String, String, String)> {
  let mut v = Vec::new();
  let m = model(w);
  let ev = parse_events(&t.text);
  let exit = match t.exit {
    Some(e) => e,
    None => return v,
  };
  if exit == 101 || exit >= 128 {
    // the tool panicked or was killed: C05's business, unless the harness's own library calls were fine
    if m.fates.iter().all(|f| f.1 != Fate::Unknown) {
      v.push(("tool-crashed".into(), format!("exit-{}", exit), format!("the tool died with status {} although every library call of the harness returned: {}", exit, t.text.chars().rev().take(300).collect::<String>().chars().rev().collect::<String>())));
    }
    return v;
  }
  if w.cmd == "compile-cddl" {
    if let Node::File(b) = &w.schema {
      if let Ok(s) = std::str::from_utf8(b) {
        let accepts = guarded(|| cddl::cddl_from_str(s, false).is_ok()).unwrap_or(false);
        if accepts != (exit == 0) {
          v.push(("compile-status".into(), format!("parser-{}-exit-{}", if accepts { "accepts" } else { "rejects" }, if exit == 0 { "zero" } else { "nonzero" }), format!("compile-cddl exited {} but the parser {} the file", exit, if accepts { "accepts" } else { "rejects" })));
        }
      }
    }
    return v;
  }
  let any_unknown = m.fates.iter().any(|f| f.1 == Fate::Unknown);
  // R1/R2: every report agrees with the library
  for e in &ev {
    if let Event::Report(path, ok) = e {
      match m.fates.iter().find(|f| &f.0 == path) {
        Some((_, Fate::Verdict(lib))) => {
          if lib != ok {
            let route = w.docs.iter().find(|d| &d.name == path).map(|d| d.route.clone()).unwrap_or_else(|| "stdin".into());
            v.push((
              "wrong-report".into(),
              format!("{}:tool-{}-library-{}", route, if *ok { "success" } else { "failure" }, if *lib { "success" } else { "failure" }),
              format!("the tool reports {} for {} but the library call with features {:?} {}", if *ok { "success" } else { "failure" }, path, w.features, if *lib { "succeeds" } else { "fails" }),
            ));
          }
        }
        Some((_, Fate::Unknown)) => {}
        Some((_, f)) => v.push(("wrong-report".into(), format!("report-for-{:?}", f).to_lowercase(), format!("the tool reports a verdict for {} which is {:?}", path, f))),
        None => {
          if m.schema_usable {
            v.push(("wrong-report".into(), "report-for-unknown-document".into(), format!("the tool reports a verdict for {:?}, which is not among the documents", path)));
          } else {
            v.push(("wrong-report".into(), "report-with-unusable-schema".into(), format!("the tool reports a verdict for {:?} although the schema is {}", path, w.schema_state)));
          }
        }
      }
    }
  }
  // R3: a conforming document the tool gets to is reported successful
  if m.schema_usable && !any_unknown {
    let upto = m.stop_at.unwrap_or(m.fates.len());
    for (i, (name, f)) in m.fates.iter().enumerate() {
      if i >= upto {
        break;
      }
      match f {
        Fate::Verdict(true) => {
          if !ev.iter().any(|e| *e == Event::Report(name.clone(), true)) {
            let route = w.docs.iter().find(|d| &d.name == name).map(|d| d.route.clone()).unwrap_or_else(|| "stdin".into());
            v.push(("unreported".into(), format!("{}:success-not-reported", route), format!("the library accepts {} (features {:?}) and the tool gets to it, but it does not report success for it", name, w.features)));
          }
        }
        Fate::Missing => {
          if !ev.iter().any(|e| *e == Event::Missing(name.clone())) {
            v.push(("unreported".into(), "missing-not-reported".into(), format!("{} does not exist and the tool does not say so", name)));
          }
        }
        _ => {}
      }
    }
  }
  // R4: --ci exit status
  if w.ci && !any_unknown {
    let problem = !m.schema_usable || m.fates.iter().any(|f| !matches!(f.1, Fate::Verdict(true)));
    if problem != (exit != 0) {
      v.push((
        "ci-exit-status".into(),
        format!("problem-{}-exit-{}", problem, if exit == 0 { "zero" } else { "nonzero" }),
        format!(
          "--ci: exit status {} but {}",
          exit,
          if problem {
            format!("schema {} / documents {:?}", w.schema_state, m.fates.iter().filter(|f| !matches!(f.1, Fate::Verdict(true))).map(|f| format!("{}={:?}", f.0, f.1)).collect::<Vec<_>>())
          } else {
            "the schema compiles and every document exists and conforms".to_string()
          }
        ),
      ));
    }
  }
  v
}

pub fn exec_world_full(w: &World) -> (ToolOut, Vec<Violation>) {
  let t = run_tool(w);
  let mut vs = Vec::new();
  if let Some(e) = &t.spawn_error {
    vs.push(Violation { class: "harness".into(), signature: "cannot-run-tool".into(), world: w.to_json(), detail: e.clone() });
    return (t, vs);
  }
  for (class, signature, detail) in judge(w, &t) {
    vs.push(Violation { class, signature, world: w.to_json(), detail });
  }
  (t, vs)
}

impl Check for C18 {
  fn name(&self) -> &'static str {
    "c18"
  }
  fn default_budget(&self) -> (usize, usize) {
    (usize::MAX, usize::MAX)
  }

  fn run(&self, seed: u64, idx: u64, _tier: Tier) -> RunOut {
    let mut out = RunOut::default();
    let w = build_world(seed, idx, &mut out);
    if trace_on() {
      trace(&format!("world {}", w.to_json()));
    }
    let (t, vs) = exec_world_full(&w);
    let ev = parse_events(&t.text);
    let mut fp = fnv(b"c18");
    fp = fnv_add(fp, w.to_json().to_string().as_bytes());
    fp = fnv_add(fp, format!("{:?}{:?}", t.exit, ev).as_bytes());
    out.ops = 1;
    for e in &ev {
      match e {
        Event::Report(_, true) => out.probe("report_success"),
        Event::Report(_, false) => out.probe("report_failure"),
        Event::Missing(_) => out.probe("report_missing"),
        Event::SchemaMissing => out.probe("report_schema_missing"),
      }
    }
    if w.ci {
      out.probe("ci_mode");
      if t.exit != Some(0) {
        out.probe("ci_nonzero_exit");
      }
    }
    if w.features.is_some() {
      out.probe("features_given");
    }
    if w.cmd == "compile-cddl" {
      out.probe("compile_cddl");
    }
    let reports = ev.iter().filter(|e| matches!(e, Event::Report(..))).count();
    out.nontrivial = reports >= 1 || w.cmd == "compile-cddl";
    out.fp = fp;
    out.violations = vs;
    out.sample = Some(json!({
      "argv": w.argv, "schema_state": w.schema_state, "docs": w.docs.iter().map(|d| format!("{}:{}", d.name, d.state)).collect::<Vec<_>>(),
      "stdin": w.stdin.as_ref().map(|b| String::from_utf8_lossy(b).chars().take(60).collect::<String>()),
      "exit": t.exit, "events": ev.iter().map(|e| format!("{:?}", e)).collect::<Vec<_>>(),
    }));
    out
  }

  fn exec_world(&self, world: &Value) -> Vec<Violation> {
    let w = World::from_json(world);
    exec_world_full(&w).1
  }
}

// ------------------------------------------------------------------------------------------------
// minimisation: drop documents and flags, canonicalise argv, keeping class + signature

pub fn minimise(v: &Violation, secs: u64) -> Violation {
  let w0 = World::from_json(&v.world);
  let class = v.class.clone();
  let sig = v.signature.clone();
  let holds = |w: &World| -> Option<String> {
    let r = exec_isolated("c18", &w.to_json(), 30);
    r.violations.iter().find(|x| x.class == class && x.signature == sig).map(|x| x.detail.clone())
  };
  if holds(&w0).is_none() {
    return v.clone();
  }
  let mut w = w0.clone();
  // canonical argv
  let mut c = w.clone();
  c.argv = c.canonical_argv();
  if holds(&c).is_some() {
    w = c;
  } else {
    return v.clone();
  }
  let mut budget = Budget::new(60, secs);
  let base = w.clone();
  let mut pred = |docs: &[DocArg]| {
    let mut c = base.clone();
    c.docs = docs.to_vec();
    c.argv = c.canonical_argv();
    holds(&c).is_some()
  };
  if w.docs.len() > 1 {
    let small = ddmin(w.docs.clone(), &mut budget, &mut pred);
    w.docs = small;
    w.argv = w.canonical_argv();
  }
  // single flags
  for k in 0..4 {
    let mut c = w.clone();
    match k {
      0 if c.stdin.is_some() && !c.docs.is_empty() => c.stdin = None,
      1 if c.csv_header => c.csv_header = false,
      2 if c.features.is_some() => c.features = None,
      3 if c.docs.len() == 1 && c.stdin.is_some() => c.docs.clear(),
      _ => continue,
    }
    c.argv = c.canonical_argv();
    if holds(&c).is_some() {
      w = c;
    }
  }
  match holds(&w) {
    Some(detail) => Violation { class, signature: sig, world: w.to_json(), detail },
    None => v.clone(),
  }
}

/// Named predicates referenced from known_findings.json, evaluated on the minimised world.
pub fn predicate(name: &str, v: &Violation) -> bool {
  let w = World::from_json(&v.world);
  match name {
    "schema_without_root_type" => match &w.schema {
      Node::File(b) => match std::str::from_utf8(b) {
        Ok(s) => guarded(|| cddl::cddl_from_str(s, false).is_ok() && cddl::parser::root_type_name_from_cddl_str(s).is_err()).unwrap_or(false),
        Err(_) => false,
      },
      _ => false,
    },
    _ => false,
  }
}
