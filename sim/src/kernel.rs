//! Simulation kernel: the run/violation vocabulary, the disposable child that executes runs, and the
//! supervisor that shards run indices over children, survives their deaths and merges by run index.

use crate::alloc;
use crate::rng::fnv;
use serde_json::{json, Value};
use std::collections::{BTreeMap, BTreeSet};
use std::io::{BufRead, BufReader, Read};
use std::process::{Command, Stdio};
use std::sync::atomic::{AtomicI64, AtomicU64, Ordering};
use std::sync::{Arc, Mutex};
use std::time::{Duration, Instant};

#[derive(Clone, Copy, Debug, PartialEq, Eq)]
pub enum Tier {
  Quick,
  Thorough,
}

impl Tier {
  pub fn as_str(self) -> &'static str {
    match self {
      Tier::Quick => "quick",
      Tier::Thorough => "thorough",
    }
  }
  pub fn parse(s: &str) -> Tier {
    if s == "thorough" {
      Tier::Thorough
    } else {
      Tier::Quick
    }
  }
}

/// A violation of a property, with the explicit world that exhibits it.
#[derive(Clone, Debug)]
pub struct Violation {
  /// e.g. "panic", "decoder-mismatch", "history-dependence"
  pub class: String,
  /// where / what, stable under unrelated edits (enclosing function, byte pattern, route)
  pub signature: String,
  /// explicit world: enough to re-execute without the generator
  pub world: Value,
  /// observed vs expected, human readable
  pub detail: String,
}

impl Violation {
  pub fn to_json(&self) -> Value {
    json!({"class": self.class, "signature": self.signature, "world": self.world, "detail": self.detail})
  }
  pub fn from_json(v: &Value) -> Violation {
    Violation {
      class: v["class"].as_str().unwrap_or("").to_string(),
      signature: v["signature"].as_str().unwrap_or("").to_string(),
      world: v["world"].clone(),
      detail: v["detail"].as_str().unwrap_or("").to_string(),
    }
  }
}

#[derive(Default)]
pub struct RunOut {
  pub fp: u64,
  pub nontrivial: bool,
  pub faults: Vec<(&'static str, u64)>,
  pub probes: Vec<(&'static str, u64)>,
  pub violations: Vec<Violation>,
  pub sample: Option<Value>,
  /// number of library operations executed in this run
  pub ops: u64,
}

impl RunOut {
  pub fn fault(&mut self, k: &'static str) {
    self.fault_n(k, 1)
  }
  pub fn fault_n(&mut self, k: &'static str, n: u64) {
    if let Some(e) = self.faults.iter_mut().find(|e| e.0 == k) {
      e.1 += n;
    } else {
      self.faults.push((k, n));
    }
  }
  pub fn probe(&mut self, k: &'static str) {
    if let Some(e) = self.probes.iter_mut().find(|e| e.0 == k) {
      e.1 += 1;
    } else {
      self.probes.push((k, 1));
    }
  }
}

/// What a check offers the kernel. `run` and `exec_world` execute inside a disposable child.
pub trait Check: Sync {
  fn name(&self) -> &'static str;
  fn run(&self, seed: u64, idx: u64, tier: Tier) -> RunOut;
  /// Execute one explicit world (from a replay file or the minimiser); returns its violations.
  fn exec_world(&self, world: &Value) -> Vec<Violation>;
  /// (single request cap, live cap) for the allocator seam, given nothing: armed per run by the check
  /// itself through `alloc::arm`; this default is what the child arms before calling `run`.
  fn default_budget(&self) -> (usize, usize) {
    (64 << 20, 1 << 30)
  }
  /// wall-clock watchdog per run, seconds
  fn watchdog_s(&self) -> u64 {
    20
  }
  /// Checks that need the fresh-process oracle return the function a pristine grandchild evaluates.
  fn zygote_eval(&self) -> Option<fn(&Value) -> Value> {
    None
  }
}

// ------------------------------------------------------------------------------------------------
// panic capture

pub struct PanicInfo {
  pub msg: String,
  pub location: String,
  /// innermost frames that belong to the library or its dependencies (not std, not the harness)
  pub frames: Vec<String>,
}

thread_local! {
  static LAST_PANIC: std::cell::RefCell<Option<PanicInfo>> = const { std::cell::RefCell::new(None) };
}

pub fn install_panic_hook() {
  std::panic::set_hook(Box::new(|info| {
    alloc::disarm();
    let msg = if let Some(s) = info.payload().downcast_ref::<&str>() {
      s.to_string()
    } else if let Some(s) = info.payload().downcast_ref::<String>() {
      s.clone()
    } else {
      "<non-string panic>".to_string()
    };
    let location = info
      .location()
      .map(|l| format!("{}:{}", l.file(), l.line()))
      .unwrap_or_default();
    let bt = std::backtrace::Backtrace::force_capture().to_string();
    let mut frames = Vec::new();
    for line in bt.lines() {
      let t = line.trim();
      // frame lines look like "12: cddl::validator::json::JSONValidator::visit_..."
      if let Some(pos) = t.find(": ") {
        if t[..pos].chars().all(|c| c.is_ascii_digit()) {
          let f = &t[pos + 2..];
          if f.starts_with("std::")
            || f.starts_with("core::")
            || f.starts_with("alloc::")
            || f.starts_with("rust_begin_unwind")
            || f.starts_with("__rust")
            || f.starts_with("<alloc::")
            || f.starts_with("<core::")
            || f.starts_with("<std::")
            || f.contains("cddl_sim::")
            || f.starts_with("sim::")
          {
            continue;
          }
          frames.push(strip_hash(f));
          if frames.len() >= 12 {
            break;
          }
        }
      }
    }
    LAST_PANIC.with(|p| *p.borrow_mut() = Some(PanicInfo { msg, location, frames }));
  }));
}

pub fn strip_hash(f: &str) -> String {
  // drop the trailing ::h0123456789abcdef
  if let Some(pos) = f.rfind("::h") {
    if f.len() - pos == 19 && f[pos + 3..].chars().all(|c| c.is_ascii_hexdigit()) {
      return f[..pos].to_string();
    }
  }
  f.to_string()
}

pub fn take_panic() -> Option<PanicInfo> {
  LAST_PANIC.with(|p| p.borrow_mut().take())
}

/// Run `f` catching panics; on panic return the captured info.
pub fn guarded<T>(f: impl FnOnce() -> T) -> Result<T, PanicInfo> {
  let _ = take_panic();
  let was_armed = alloc::is_armed();
  match std::panic::catch_unwind(std::panic::AssertUnwindSafe(f)) {
    Ok(v) => Ok(v),
    Err(_) => {
      // the hook disarmed the allocator budget to be able to capture a back-trace
      if was_armed {
        alloc::rearm();
      }
      Err(take_panic().unwrap_or(PanicInfo {
        msg: "<panic without hook>".into(),
        location: String::new(),
        frames: vec![],
      }))
    }
  }
}

/// The enclosing function of the library (first frame in `cddl::` or `cddl_derive`), else the first
/// dependency frame.
pub fn panic_site(p: &PanicInfo) -> String {
  for f in &p.frames {
    if f.starts_with("cddl::") || f.starts_with("<cddl::") || f.contains(" cddl::") {
      return f.clone();
    }
  }
  p.frames.first().cloned().unwrap_or_else(|| p.location.clone())
}

// ------------------------------------------------------------------------------------------------
// child side

/// The fd the child speaks its protocol on. The library under test (and its dependencies) may print to
/// stdout (plus_operation has a leftover `println!("controller: ..")`), so at start-up the child moves the
/// pipe to a private descriptor and points fd 1 at stderr.
static PROTO_FD: std::sync::atomic::AtomicI32 = std::sync::atomic::AtomicI32::new(1);

pub fn isolate_protocol_fd() {
  unsafe {
    let fd = libc::dup(1);
    if fd >= 0 {
      libc::fcntl(fd, libc::F_SETFD, libc::FD_CLOEXEC);
      libc::dup2(2, 1);
      PROTO_FD.store(fd, Ordering::SeqCst);
    }
  }
}

fn raw_out(s: &str) {
  let b = s.as_bytes();
  let mut off = 0;
  let fd = PROTO_FD.load(Ordering::SeqCst);
  while off < b.len() {
    let n = unsafe { libc::write(fd, b[off..].as_ptr() as *const libc::c_void, b.len() - off) };
    if n <= 0 {
      // supervisor went away
      unsafe { libc::_exit(4) };
    }
    off += n as usize;
  }
}

fn fmt_counts(v: &[(&'static str, u64)]) -> String {
  if v.is_empty() {
    return "-".into();
  }
  v.iter().map(|(k, n)| format!("{}={}", k, n)).collect::<Vec<_>>().join(",")
}

/// Write-ahead operation trace (`O <text>` lines), switched on only when a run is re-executed alone
/// after it killed a child, so that the operation in flight at the moment of death is known.
pub static TRACE: std::sync::atomic::AtomicBool = std::sync::atomic::AtomicBool::new(false);

pub fn trace_on() -> bool {
  TRACE.load(Ordering::Relaxed)
}

pub fn trace(s: &str) {
  if TRACE.load(Ordering::Relaxed) {
    let was = alloc::is_armed();
    alloc::disarm();
    raw_out(&format!("O {}\n", s));
    if was {
      alloc::rearm();
    }
  }
}

static CUR_RUN: AtomicI64 = AtomicI64::new(-1);
static CUR_SINCE_MS: AtomicU64 = AtomicU64::new(0);

fn now_ms(t0: Instant) -> u64 {
  t0.elapsed().as_millis() as u64
}

pub const STACK_BYTES: usize = 8 << 20;

/// Entry of `sim child <check> <seed> <tier> <start> <count> <stride> <samples>`.
/// Executes runs start, start+stride, ... on an 8 MiB thread; write-ahead `B i`, then `V`/`M`/`E` lines.
pub fn child_runs(
  check: &'static dyn Check,
  seed: u64,
  tier: Tier,
  start: u64,
  count: u64,
  stride: u64,
  sample_below: u64,
) -> ! {
  install_panic_hook();
  isolate_protocol_fd();
  if let Some(f) = check.zygote_eval() {
    crate::zygote::start(f);
  }
  let t0 = Instant::now();
  let watchdog = check.watchdog_s() * 1000;
  let h = std::thread::Builder::new()
    .stack_size(STACK_BYTES)
    .name("subject".into())
    .spawn(move || {
      alloc::set_subject(true);
      for k in 0..count {
        let i = start + k * stride;
        CUR_SINCE_MS.store(now_ms(t0), Ordering::SeqCst);
        CUR_RUN.store(i as i64, Ordering::SeqCst);
        raw_out(&format!("B {}\n", i));
        let (single, live) = check.default_budget();
        alloc::arm(single, live);
        let out = guarded(|| check.run(seed, i, tier));
        alloc::disarm();
        CUR_RUN.store(-1, Ordering::SeqCst);
        let mut s = String::new();
        match out {
          Ok(o) => {
            for v in &o.violations {
              s.push_str(&format!("V {} {}\n", i, v.to_json()));
            }
            if i < sample_below {
              if let Some(m) = &o.sample {
                s.push_str(&format!("M {} {}\n", i, m));
              }
            }
            s.push_str(&format!(
              "E {} {:016x} {} {} {} {}\n",
              i,
              o.fp,
              if o.nontrivial { 1 } else { 0 },
              o.ops,
              fmt_counts(&o.faults),
              fmt_counts(&o.probes)
            ));
          }
          Err(p) => {
            // a panic that escaped the check's own guards: the harness treats it as a violation of
            // whatever the check is about (the check decides the class for guarded operations)
            let v = Violation {
              class: "panic".into(),
              signature: format!("escaped:{}", panic_site(&p)),
              world: json!({"seed": seed, "run": i}),
              detail: format!("{} at {}", p.msg, p.location),
            };
            s.push_str(&format!("V {} {}\n", i, v.to_json()));
            s.push_str(&format!("E {} {:016x} 1 0 - escaped_panic=1\n", i, 0));
          }
        }
        raw_out(&s);
      }
    })
    .expect("spawn subject thread");
  // watchdog loop on the main thread
  loop {
    if h.is_finished() {
      let ok = h.join().is_ok();
      unsafe { libc::_exit(if ok { 0 } else { 5 }) };
    }
    let cur = CUR_RUN.load(Ordering::SeqCst);
    if cur >= 0 {
      let since = CUR_SINCE_MS.load(Ordering::SeqCst);
      if now_ms(t0).saturating_sub(since) > watchdog && CUR_RUN.load(Ordering::SeqCst) == cur {
        raw_out(&format!("T {}\n", cur));
        unsafe { libc::_exit(3) };
      }
    }
    std::thread::sleep(Duration::from_millis(if cur >= 0 { 5 } else { 1 }));
  }
}

/// Entry of `sim exec <check> <worldfile> <watchdog_s>`: executes one explicit world.
pub fn child_exec(check: &'static dyn Check, world: Value, watchdog_s: u64) -> ! {
  install_panic_hook();
  isolate_protocol_fd();
  if let Some(f) = check.zygote_eval() {
    crate::zygote::start(f);
  }
  let t0 = Instant::now();
  let h = std::thread::Builder::new()
    .stack_size(STACK_BYTES)
    .name("subject".into())
    .spawn(move || {
      alloc::set_subject(true);
      let (single, live) = check.default_budget();
      alloc::arm(single, live);
      let out = guarded(|| check.exec_world(&world));
      alloc::disarm();
      let mut s = String::new();
      match out {
        Ok(vs) => {
          for v in &vs {
            s.push_str(&format!("V 0 {}\n", v.to_json()));
          }
        }
        Err(p) => {
          let v = Violation {
            class: "panic".into(),
            signature: format!("escaped:{}", panic_site(&p)),
            world: world.clone(),
            detail: format!("{} at {}", p.msg, p.location),
          };
          s.push_str(&format!("V 0 {}\n", v.to_json()));
        }
      }
      s.push_str("DONE\n");
      raw_out(&s);
    })
    .expect("spawn subject thread");
  loop {
    if h.is_finished() {
      unsafe { libc::_exit(0) };
    }
    if t0.elapsed().as_secs() >= watchdog_s {
      raw_out("T 0\n");
      unsafe { libc::_exit(3) };
    }
    std::thread::sleep(Duration::from_millis(2));
  }
}

// ------------------------------------------------------------------------------------------------
// supervisor side

#[derive(Clone, Debug)]
pub struct Death {
  pub idx: u64,
  /// "signal:11", "signal:6", "timeout", "exit:5"
  pub how: String,
  pub stderr_tail: String,
}

#[derive(Default)]
pub struct Agg {
  pub evaluations: u64,
  pub ops: u64,
  pub nontrivial: u64,
  pub distinct: BTreeSet<u64>,
  pub faults: BTreeMap<String, u64>,
  pub probes: BTreeMap<String, u64>,
  pub violations: Vec<(u64, Violation)>,
  pub deaths: Vec<Death>,
  pub samples: Vec<(u64, Value)>,
  /// per-run fingerprints (only kept when asked: determinism self-test)
  pub fps: BTreeMap<u64, u64>,
  pub children: u64,
  pub harness_errors: Vec<String>,
}

impl Agg {
  fn merge(&mut self, o: Agg) {
    self.evaluations += o.evaluations;
    self.ops += o.ops;
    self.nontrivial += o.nontrivial;
    self.distinct.extend(o.distinct);
    for (k, v) in o.faults {
      *self.faults.entry(k).or_default() += v;
    }
    for (k, v) in o.probes {
      *self.probes.entry(k).or_default() += v;
    }
    self.violations.extend(o.violations);
    self.deaths.extend(o.deaths);
    self.samples.extend(o.samples);
    self.fps.extend(o.fps);
    self.children += o.children;
    self.harness_errors.extend(o.harness_errors);
  }
  pub fn probe(&mut self, k: &str, n: u64) {
    *self.probes.entry(k.to_string()).or_default() += n;
  }
}

pub struct Plan {
  pub check: &'static str,
  pub seed: u64,
  pub tier: Tier,
  /// run indices 0..total
  pub total: u64,
  pub batch: u64,
  pub workers: usize,
  pub deadline: Option<Instant>,
  pub keep_fps: bool,
  pub sample_below: u64,
  /// stop starting new batches once this many children have died (the verdict is clear by then; every
  /// further death costs a watchdog period)
  pub max_deaths: u64,
}

pub fn tmp_dir() -> std::path::PathBuf {
  let p = std::env::var("VERIF_TMP").map(std::path::PathBuf::from).unwrap_or_else(|_| crate::report::verif_dir().join("target/tmp"));
  let _ = std::fs::create_dir_all(&p);
  p
}

pub fn workers_from_env() -> usize {
  let n = std::thread::available_parallelism().map(|n| n.get()).unwrap_or(4);
  std::env::var("VERIF_WORKERS")
    .ok()
    .and_then(|s| s.parse().ok())
    .unwrap_or(n.min(16))
    .max(1)
}

fn parse_counts(s: &str, into: &mut BTreeMap<String, u64>) {
  if s == "-" {
    return;
  }
  for kv in s.split(',') {
    if let Some((k, v)) = kv.split_once('=') {
      *into.entry(k.to_string()).or_default() += v.parse::<u64>().unwrap_or(0);
    }
  }
}

fn status_string(st: &std::process::ExitStatus) -> String {
  use std::os::unix::process::ExitStatusExt;
  if let Some(sig) = st.signal() {
    format!("signal:{}", sig)
  } else {
    format!("exit:{}", st.code().unwrap_or(-1))
  }
}

fn tail(s: &str, n: usize) -> String {
  if s.len() <= n {
    s.to_string()
  } else {
    let mut start = s.len() - n;
    while !s.is_char_boundary(start) {
      start += 1;
    }
    s[start..].to_string()
  }
}

/// Execute all runs of `plan` in disposable children. Never fails because a child died.
pub fn run_plan(plan: &Plan) -> Agg {
  let exe = std::env::current_exe().expect("current_exe");
  let total = Arc::new(Mutex::new(Agg::default()));
  let deaths_so_far = Arc::new(AtomicU64::new(0));
  let w = plan.workers.max(1) as u64;
  std::thread::scope(|scope| {
    for shard in 0..w {
      let total = total.clone();
      let exe = exe.clone();
      let deaths_so_far = deaths_so_far.clone();
      scope.spawn(move || {
        let mut agg = Agg::default();
        let errfile = tmp_dir().join(format!("{}-{}-{}.err", plan.check, std::process::id(), shard));
        // indices owned by this shard: shard, shard+w, ...
        let mine = if plan.total > shard { (plan.total - shard + w - 1) / w } else { 0 };
        let mut done: u64 = 0; // number of own indices finished (or skipped after a death)
        while done < mine {
          if let Some(d) = plan.deadline {
            if Instant::now() >= d {
              break;
            }
          }
          if plan.max_deaths > 0 && deaths_so_far.load(Ordering::SeqCst) >= plan.max_deaths {
            agg.probe("stopped_early_too_many_deaths", 1);
            break;
          }
          let count = plan.batch.min(mine - done);
          let start = shard + done * w;
          let errf = match std::fs::File::create(&errfile) {
            Ok(f) => f,
            Err(e) => {
              agg.harness_errors.push(format!("cannot create {}: {}", errfile.display(), e));
              break;
            }
          };
          let child = Command::new(&exe)
            .arg("child")
            .arg(plan.check)
            .arg(plan.seed.to_string())
            .arg(plan.tier.as_str())
            .arg(start.to_string())
            .arg(count.to_string())
            .arg(w.to_string())
            .arg(plan.sample_below.to_string())
            .stdin(Stdio::null())
            .stdout(Stdio::piped())
            .stderr(Stdio::from(errf))
            .spawn();
          let mut child = match child {
            Ok(c) => c,
            Err(e) => {
              agg.harness_errors.push(format!("cannot spawn child: {}", e));
              break;
            }
          };
          agg.children += 1;
          let out = child.stdout.take().unwrap();
          let mut inflight: Option<u64> = None;
          let mut timed_out = false;
          let mut finished_in_batch: u64 = 0;
          for line in BufReader::new(out).lines() {
            let line = match line {
              Ok(l) => l,
              Err(_) => break,
            };
            let mut it = line.splitn(3, ' ');
            let tag = it.next().unwrap_or("");
            let idx: u64 = it.next().and_then(|s| s.parse().ok()).unwrap_or(u64::MAX);
            let rest = it.next().unwrap_or("");
            match tag {
              "B" => inflight = Some(idx),
              "T" => {
                timed_out = true;
                inflight = Some(idx);
              }
              "V" => match serde_json::from_str::<Value>(rest) {
                Ok(v) => agg.violations.push((idx, Violation::from_json(&v))),
                Err(e) => agg.harness_errors.push(format!("bad V line: {} ({})", rest, e)),
              },
              "M" => {
                if let Ok(v) = serde_json::from_str::<Value>(rest) {
                  agg.samples.push((idx, v));
                }
              }
              "E" => {
                let f: Vec<&str> = rest.split(' ').collect();
                if f.len() == 5 {
                  let fp = u64::from_str_radix(f[0], 16).unwrap_or(0);
                  agg.evaluations += 1;
                  agg.ops += f[2].parse::<u64>().unwrap_or(0);
                  if f[1] == "1" {
                    agg.nontrivial += 1;
                    agg.distinct.insert(fp);
                  }
                  if plan.keep_fps {
                    agg.fps.insert(idx, fp);
                  }
                  parse_counts(f[3], &mut agg.faults);
                  parse_counts(f[4], &mut agg.probes);
                } else {
                  agg.harness_errors.push(format!("bad E line: {}", line));
                }
                inflight = None;
                finished_in_batch += 1;
              }
              _ => agg.harness_errors.push(format!("unexpected child line: {}", line)),
            }
          }
          let st = child.wait();
          let how = match &st {
            Ok(s) => status_string(s),
            Err(e) => format!("wait-error:{}", e),
          };
          let clean = matches!(&st, Ok(s) if s.success());
          if clean && inflight.is_none() && finished_in_batch == count {
            done += count;
            continue;
          }
          // the child died (or was stopped by its watchdog) while run `inflight` was executing
          let mut err = String::new();
          if let Ok(mut f) = std::fs::File::open(&errfile) {
            let mut buf = Vec::new();
            let _ = f.read_to_end(&mut buf);
            err = String::from_utf8_lossy(&buf).to_string();
          }
          match inflight {
            Some(i) => {
              agg.deaths.push(Death {
                idx: i,
                how: if timed_out { "timeout".into() } else { how },
                stderr_tail: tail(&err, 2000),
              });
              agg.evaluations += 1;
              deaths_so_far.fetch_add(1, Ordering::SeqCst);
              *agg.probes.entry("child_died".into()).or_default() += 1;
              // resume after the run that killed the child
              done += finished_in_batch + 1;
            }
            None => {
              agg.harness_errors.push(format!(
                "child for {} start={} count={} ended with {} outside a run; stderr: {}",
                plan.check,
                start,
                count,
                how,
                tail(&err, 500)
              ));
              done += finished_in_batch.max(1);
            }
          }
        }
        let _ = std::fs::remove_file(&errfile);
        total.lock().unwrap().merge(agg);
      });
    }
  });
  let mut agg = std::mem::take(&mut *total.lock().unwrap());
  agg.violations.sort_by_key(|v| v.0);
  agg.deaths.sort_by_key(|d| d.idx);
  agg.samples.sort_by_key(|s| s.0);
  agg
}

pub struct ExecResult {
  /// "ok" (ran to completion), "signal:N", "timeout", "exit:N"
  pub how: String,
  pub violations: Vec<Violation>,
  pub stderr: String,
  pub wall: Duration,
}

impl ExecResult {
  pub fn died(&self) -> bool {
    self.how != "ok"
  }
}

static EXEC_SEQ: AtomicU64 = AtomicU64::new(0);

/// Execute one explicit world alone in a fresh child.
pub fn exec_isolated(check: &str, world: &Value, watchdog_s: u64) -> ExecResult {
  let exe = std::env::current_exe().expect("current_exe");
  let n = EXEC_SEQ.fetch_add(1, Ordering::SeqCst);
  let wf = tmp_dir().join(format!("world-{}-{}-{}.json", check, std::process::id(), n));
  let ef = tmp_dir().join(format!("world-{}-{}-{}.err", check, std::process::id(), n));
  std::fs::write(&wf, world.to_string()).expect("write world");
  let t0 = Instant::now();
  let errf = std::fs::File::create(&ef).expect("create err file");
  let out = Command::new(&exe)
    .arg("exec")
    .arg(check)
    .arg(&wf)
    .arg(watchdog_s.to_string())
    .stdin(Stdio::null())
    .stderr(Stdio::from(errf))
    .output();
  let wall = t0.elapsed();
  let stderr = std::fs::read(&ef).map(|b| String::from_utf8_lossy(&b).to_string()).unwrap_or_default();
  let _ = std::fs::remove_file(&wf);
  let _ = std::fs::remove_file(&ef);
  match out {
    Ok(o) => {
      let so = String::from_utf8_lossy(&o.stdout).to_string();
      let mut violations = Vec::new();
      let mut done = false;
      let mut timeout = false;
      for line in so.lines() {
        if let Some(rest) = line.strip_prefix("V 0 ") {
          if let Ok(v) = serde_json::from_str::<Value>(rest) {
            violations.push(Violation::from_json(&v));
          }
        } else if line == "DONE" {
          done = true;
        } else if line == "T 0" {
          timeout = true;
        }
      }
      let how = if timeout {
        "timeout".to_string()
      } else if done && o.status.success() {
        "ok".to_string()
      } else {
        status_string(&o.status)
      };
      ExecResult { how, violations, stderr, wall }
    }
    Err(e) => ExecResult { how: format!("spawn-error:{}", e), violations: vec![], stderr, wall },
  }
}

pub struct TraceResult {
  pub how: String,
  pub last_op: Option<String>,
  pub ops: Vec<String>,
  pub violations: Vec<Violation>,
  pub stderr: String,
}

/// Re-execute run `idx` alone in a fresh child with the operation trace on.
pub fn trace_run(check: &str, seed: u64, tier: Tier, idx: u64) -> TraceResult {
  let exe = std::env::current_exe().expect("current_exe");
  let n = EXEC_SEQ.fetch_add(1, Ordering::SeqCst);
  let ef = tmp_dir().join(format!("trace-{}-{}-{}.err", check, std::process::id(), n));
  let errf = std::fs::File::create(&ef).expect("create err file");
  let out = Command::new(&exe)
    .arg("child")
    .arg(check)
    .arg(seed.to_string())
    .arg(tier.as_str())
    .arg(idx.to_string())
    .arg("1")
    .arg("1")
    .arg("0")
    .arg("trace")
    .stdin(Stdio::null())
    .stderr(Stdio::from(errf))
    .output();
  let stderr = std::fs::read(&ef).map(|b| String::from_utf8_lossy(&b).to_string()).unwrap_or_default();
  let _ = std::fs::remove_file(&ef);
  match out {
    Ok(o) => {
      let so = String::from_utf8_lossy(&o.stdout).to_string();
      let mut ops = Vec::new();
      let mut violations = Vec::new();
      let mut ended = false;
      let mut timeout = false;
      for line in so.lines() {
        if let Some(rest) = line.strip_prefix("O ") {
          ops.push(rest.to_string());
        } else if line.starts_with("E ") {
          ended = true;
        } else if line.starts_with("T ") {
          timeout = true;
        } else if line.starts_with("V ") {
          let mut it = line.splitn(3, ' ');
          it.next();
          it.next();
          if let Some(rest) = it.next() {
            if let Ok(v) = serde_json::from_str::<Value>(rest) {
              violations.push(Violation::from_json(&v));
            }
          }
        }
      }
      let how = if timeout {
        "timeout".to_string()
      } else if ended && o.status.success() {
        "ok".to_string()
      } else {
        status_string(&o.status)
      };
      TraceResult { how, last_op: ops.last().cloned(), ops, violations, stderr }
    }
    Err(e) => TraceResult {
      how: format!("spawn-error:{}", e),
      last_op: None,
      ops: vec![],
      violations: vec![],
      stderr,
    },
  }
}

pub fn fingerprint(parts: &[&[u8]]) -> u64 {
  let mut h = fnv(b"run");
  for p in parts {
    h = crate::rng::fnv_add(h, &(p.len() as u64).to_le_bytes());
    h = crate::rng::fnv_add(h, p);
  }
  h
}

pub fn hex(b: &[u8]) -> String {
  let mut s = String::with_capacity(b.len() * 2);
  for x in b {
    s.push_str(&format!("{:02x}", x));
  }
  s
}

pub fn unhex(s: &str) -> Vec<u8> {
  let b = s.as_bytes();
  let mut out = Vec::with_capacity(b.len() / 2);
  let v = |c: u8| -> u8 {
    match c {
      b'0'..=b'9' => c - b'0',
      b'a'..=b'f' => c - b'a' + 10,
      b'A'..=b'F' => c - b'A' + 10,
      _ => 0,
    }
  };
  let mut i = 0;
  while i + 1 < b.len() {
    out.push(v(b[i]) << 4 | v(b[i + 1]));
    i += 2;
  }
  out
}
