//! `sim` — deterministic simulation harness for the cddl properties (see /verif/DESIGN.md).
//!
//!   sim run <c05|c11|c14|c17|c18> <quick|thorough>     supervisor; prints KNOWN-FINDING / VIOLATION; exit 0/1/2
//!   sim replay <file>                                   exit 1 iff the recorded violation reproduces
//!   sim selftest <model|determinism>                    proofs about the simulator itself
//!   sim child ... / sim exec ...                        internal: disposable children

mod alloc;
mod c05;
mod c05t;
mod c11;
mod c14;
mod c17;
mod c18;
mod cborref;
mod faults;
mod gen;
mod kernel;
mod minimize;
mod miri;
mod report;
mod rng;
mod triage;
mod zygote;

use kernel::*;
use std::time::Instant;

#[global_allocator]
static GLOBAL: alloc::SimAlloc = alloc::SimAlloc;

pub const DEFAULT_SEED: u64 = 20260921;

pub fn seed_from_env() -> u64 {
  std::env::var("VERIF_SEED").ok().and_then(|s| s.trim().parse::<u64>().ok()).unwrap_or(DEFAULT_SEED)
}

fn check_by_name(name: &str) -> Option<&'static dyn Check> {
  match name {
    "c11" => Some(&c11::C11_CHECK),
    "c11x" => Some(&c11::C11X_CHECK),
    "c05" => Some(&c05::C05_CHECK),
    "c05g" => Some(&c05::C05G_CHECK),
    "c14" => Some(&c14::C14_CHECK),
    "c18" => Some(&c18::C18_CHECK),
    "c17" => Some(&c17::C17_CHECK),
    _ => None,
  }
}

fn usage() -> ! {
  eprintln!("usage: sim run <check> <quick|thorough> | sim replay <file> | sim selftest <model|determinism>");
  std::process::exit(2)
}

fn main() {
  let args: Vec<String> = std::env::args().collect();
  if args.len() < 2 {
    usage();
  }
  match args[1].as_str() {
    "child" => {
      // child <check> <seed> <tier> <start> <count> <stride> <sample_below> [trace]
      if args.len() < 9 {
        usage();
      }
      let check = check_by_name(&args[2]).unwrap_or_else(|| usage());
      let seed: u64 = args[3].parse().unwrap();
      let tier = Tier::parse(&args[4]);
      let start: u64 = args[5].parse().unwrap();
      let count: u64 = args[6].parse().unwrap();
      let stride: u64 = args[7].parse().unwrap();
      let sample_below: u64 = args[8].parse().unwrap();
      if args.get(9).map(|s| s == "trace").unwrap_or(false) {
        TRACE.store(true, std::sync::atomic::Ordering::SeqCst);
      }
      child_runs(check, seed, tier, start, count, stride, sample_below);
    }
    "exec" => {
      // exec <check> <worldfile> <watchdog_s>
      if args.len() < 5 {
        usage();
      }
      let check = check_by_name(&args[2]).unwrap_or_else(|| usage());
      let world: serde_json::Value =
        serde_json::from_str(&std::fs::read_to_string(&args[3]).expect("read world")).expect("parse world");
      child_exec(check, world, args[4].parse().unwrap_or(20));
    }
    "run" => {
      if args.len() < 4 {
        usage();
      }
      let tier = Tier::parse(&args[3]);
      let seed = seed_from_env();
      println!("VERIF_SEED={} check={} tier={}", seed, args[2], tier.as_str());
      let code = match args[2].as_str() {
        "c11" => run_c11(seed, tier),
        "c05" => run_c05(seed, tier),
        "c14" => run_c14(seed, tier),
        "c18" => run_c18(seed, tier),
        "c17" => run_c17(seed, tier),
        _ => usage(),
      };
      std::process::exit(code);
    }
    "replay" => {
      if args.len() < 3 {
        usage();
      }
      std::process::exit(replay(&args[2]));
    }
    "minimise" => {
      // minimise <file with one V-line json or a replay file>: prints the minimised world (a building aid)
      let body: serde_json::Value = serde_json::from_str(&std::fs::read_to_string(&args[2]).expect("read")).expect("json");
      let v = if body.get("violation").is_some() {
        Violation { class: body["violation"]["class"].as_str().unwrap_or("").into(), signature: body["violation"]["signature"].as_str().unwrap_or("").into(), world: body["world"].clone(), detail: String::new() }
      } else {
        Violation::from_json(&body)
      };
      let m = c05t::minimise_world("c05", &v, 120);
      println!("{}", serde_json::to_string_pretty(&m.to_json()).unwrap());
      let known = report::load_known().unwrap_or_default();
      for k in known.iter().filter(|k| k.matches("C05", &m, &|p, v| c05t::predicate(p, v))) {
        println!("matches known finding {}", k.id);
      }
      for p in ["unguarded_rule_cycle", "generic_reentrancy", "abnf_huge_repetition"] {
        println!("predicate {} = {}", p, c05t::predicate(p, &m));
      }
    }
    "selftest" => {
      let what = args.get(2).map(|s| s.as_str()).unwrap_or("model");
      let code = match what {
        "model" => match c11::selftest() {
          Ok(s) => {
            println!("{}", s);
            0
          }
          Err(e) => {
            eprintln!("SELFTEST FAILED: {}", e);
            2
          }
        },
        "determinism" => selftest_determinism(&args[3..]),
        _ => usage(),
      };
      std::process::exit(code);
    }
    _ => usage(),
  }
}

fn thorough_deadline(default_s: u64) -> Option<Instant> {
  let s = std::env::var("VERIF_BUDGET_S").ok().and_then(|s| s.parse::<u64>().ok()).unwrap_or(default_s);
  Some(Instant::now() + std::time::Duration::from_secs(s))
}

fn runs_from_env(default: u64) -> u64 {
  std::env::var("VERIF_RUNS").ok().and_then(|s| s.parse::<u64>().ok()).unwrap_or(default)
}

// ------------------------------------------------------------------------------------------------
// C11

fn run_c11(seed: u64, tier: Tier) -> i32 {
  let t0 = Instant::now();
  if let Err(e) = c11::selftest() {
    eprintln!("HARNESS-ERROR: reference model self-test failed: {}", e);
    return 2;
  }
  let workers = workers_from_env();
  // phase 1: exhaustive small scope
  let xplan = Plan {
    check: "c11x",
    seed,
    tier,
    total: c11::C11X::total_runs(tier),
    batch: 8,
    workers,
    deadline: None,
    keep_fps: false,
    sample_below: 2,
    max_deaths: 0,
  };
  let xagg = run_plan(&xplan);
  // phase 2: seeded search over items x fault plans
  let total = runs_from_env(match tier {
    Tier::Quick => 60_000,
    Tier::Thorough => 6_000_000,
  });
  let plan = Plan {
    check: "c11",
    seed,
    tier,
    total,
    batch: 1000,
    workers,
    deadline: if tier == Tier::Thorough { thorough_deadline(900) } else { None },
    keep_fps: false,
    sample_below: 4,
    max_deaths: 0,
  };
  let mut agg = run_plan(&plan);
  let exhaustive_complete = xagg.evaluations == xplan.total && xagg.deaths.is_empty();

  let mut findings = Vec::new();
  let mut all: Vec<(u64, Violation)> = Vec::new();
  // deaths: find the operation in flight, confirm alone
  for (check, a) in [("c11x", &xagg), ("c11", &agg)] {
    for d in a.deaths.iter().take(20) {
      let tr = trace_run(check, seed, tier, d.idx);
      let class = triage::death_class(&tr.how, &tr.stderr);
      match (&tr.last_op, class) {
        (_, "ok") => {
          // did not reproduce alone: not attributable, not reported
          eprintln!("note: death of run {} ({}) did not reproduce in isolation", d.idx, d.how);
        }
        (Some(op), "hang") => {
          // a time-out is only believed when the operation in flight, executed alone with a generous
          // watchdog, still does not return (machine load must not raise an alarm)
          let w = serde_json::json!({"bytes": op});
          let r = exec_isolated(check, &w, 90);
          if r.how == "timeout" {
            all.push((d.idx, Violation { class: "hang".into(), signature: "decode_cbor".into(), world: w, detail: format!("decode_cbor did not return within 90 s, alone, on {} bytes", op.len() / 2) }));
          } else {
            eprintln!("note: run {} timed out in its batch but its last operation returns when executed alone", d.idx);
          }
        }
        (Some(op), class) => {
          all.push((
            d.idx,
            Violation {
              class: class.into(),
              signature: "decode_cbor".into(),
              world: serde_json::json!({"bytes": op}),
              detail: format!("process died ({}) while decoding {}: {}", tr.how, op, tr.stderr.lines().last().unwrap_or("")),
            },
          ));
        }
        (None, _) => eprintln!("note: death of run {} without an operation in flight", d.idx),
      }
    }
    for (i, v) in &a.violations {
      all.push((*i, v.clone()));
    }
  }
  let mut harness_errors = Vec::new();
  let known = report::load_known().unwrap_or_default();
  for (run, v, _count) in triage::group(&all) {
    if v.class == "harness" {
      harness_errors.push(format!("{}: {}", v.signature, v.detail));
      continue;
    }
    let is_known = known.iter().any(|k| k.status == "known" && k.property == "C11" && k.class == v.class && k.signature == v.signature);
    let v = if is_known { v } else { triage::minimise_bytes("c11", &v, "bytes", 20) };
    findings.push(report::Finding { run, violation: v });
  }
  // merge the exhaustive aggregate into the evidence
  agg.evaluations += xagg.evaluations;
  agg.ops += xagg.ops;
  agg.children += xagg.children;
  for fp in &xagg.distinct {
    agg.distinct.insert(*fp);
  }
  for (k, v) in &xagg.probes {
    *agg.probes.entry(format!("exhaustive_{}", k)).or_default() += v;
  }
  for (k, v) in &xagg.faults {
    *agg.faults.entry(k.clone()).or_default() += v;
  }
  let mut samples = xagg.samples.clone();
  samples.extend(agg.samples.clone());
  agg.samples = samples;
  agg.harness_errors.extend(xagg.harness_errors.clone());
  agg.harness_errors.extend(harness_errors);
  let mut deaths = xagg.deaths.clone();
  deaths.extend(agg.deaths.clone());
  agg.deaths = deaths;

  let mut extra = std::collections::BTreeMap::new();
  extra.insert(
    "exhaustive_scope".to_string(),
    serde_json::json!(match tier {
      Tier::Quick => "every byte string of length 0..=3 (16 843 009 strings) compared with the reference model",
      Tier::Thorough => "every byte string of length 0..=3, plus length 4 with one representative initial byte per (major type, AI class), every second byte and a 48x48 table of structurally interesting last bytes",
    }),
  );
  extra.insert("exhaustive_scope_complete".to_string(), serde_json::json!(exhaustive_complete));
  let rep = report::Report {
    property: "C11",
    check: "c11",
    seed,
    tier,
    level: "fault_enumeration",
    rule: "phase 1 enumerates short byte strings exhaustively (one evaluation = one block of 65 536 strings); phase 2: one evaluation = one random data item written with random encoding choices, then read back intact, with trailing bytes, truncated at EVERY offset, with every single bit flipped (items <= 32 bytes) and under 4-24 sampled corruptions (overwrite, insert, delete, duplicate, splice, reserved AI, hostile length, stray break, major swap); each read is compared with the RFC 8949 reference model. non-trivial = encoding of at least 2 bytes; distinct = distinct FNV digests of (encoding, corrupted variants)".into(),
    assumptions: vec![
      "the reference model (sim/src/cborref.rs) is RFC 8949; it is cross-checked on every run against Appendix A examples, a table of ill-formed strings, and 20 000 random items against ciborium and the writer".into(),
      "all NaN payloads denote one value".into(),
      "items in phase 2 nest at most 4 deep before corruption; depth up to 64 is C05's question".into(),
    ],
    real_components: vec!["cddl::validator::cbor_value::decode_cbor from /repo working tree".into(), "ciborium-ll / ciborium-io / half as locked by /repo/Cargo.lock".into()],
    stub_components: vec!["none (the medium is an in-memory byte string, which is what the public API takes)".into()],
    extra,
  };
  report::finish(&rep, &agg, findings, t0.elapsed().as_secs_f64(), Some(false), &|_, _| true)
}

// ------------------------------------------------------------------------------------------------
// C05

fn run_c05(seed: u64, tier: Tier) -> i32 {
  let t0 = Instant::now();
  let workers = workers_from_env();
  // phase 1: deterministic growth check over the parametric families
  let gplan = Plan {
    check: "c05g",
    seed,
    tier,
    total: c05::C05G::total_runs(),
    batch: 1,
    workers,
    deadline: None,
    keep_fps: false,
    sample_below: 3,
    max_deaths: 0,
  };
  let gagg = run_plan(&gplan);
  eprintln!("phase growth: {:.1}s", t0.elapsed().as_secs_f64());
  // phase 2: seeded search over worlds x faults
  let total = runs_from_env(match tier {
    Tier::Quick => 24_000,
    Tier::Thorough => 3_000_000,
  });
  let plan = Plan {
    check: "c05",
    seed,
    tier,
    total,
    batch: 200,
    workers,
    deadline: if tier == Tier::Thorough { thorough_deadline(1200) } else { None },
    keep_fps: false,
    sample_below: 6,
    max_deaths: if tier == Tier::Quick { 120 } else { 1500 },
  };
  let mut agg = run_plan(&plan);
  eprintln!("phase search: {:.1}s ({} deaths)", t0.elapsed().as_secs_f64(), agg.deaths.len());

  let known = report::load_known().unwrap_or_default();
  let mut raw: Vec<(u64, Violation)> = Vec::new();
  let mut notes: Vec<String> = Vec::new();
  let max_deaths = if tier == Tier::Quick { 600 } else { 3000 };
  let mut not_triaged = 0u64;
  for (check, a) in [("c05g", &gagg), ("c05", &agg)] {
    // deaths are attributed in parallel: each needs one child execution with the operation trace on
    // every timed-out run costs a watchdog period to attribute: at most 12 of them are attributed
    let mut n_timeouts = 0;
    let deaths: Vec<&Death> = a
      .deaths
      .iter()
      .filter(|d| {
        if d.how == "timeout" {
          n_timeouts += 1;
          n_timeouts <= 12
        } else {
          true
        }
      })
      .take(max_deaths)
      .collect();
    not_triaged += (a.deaths.len() - deaths.len()) as u64;
    let results: std::sync::Mutex<Vec<(u64, Result<Violation, String>)>> = std::sync::Mutex::new(Vec::new());
    let next = std::sync::atomic::AtomicUsize::new(0);
    std::thread::scope(|sc| {
      for _ in 0..workers {
        sc.spawn(|| loop {
          let i = next.fetch_add(1, std::sync::atomic::Ordering::SeqCst);
          if i >= deaths.len() {
            break;
          }
          let r = c05t::death_to_violation(check, seed, tier, deaths[i]);
          results.lock().unwrap().push((deaths[i].idx, r));
        });
      }
    });
    let mut rs = results.into_inner().unwrap();
    rs.sort_by_key(|x| x.0);
    for (idx, r) in rs {
      match r {
        Ok(v) => raw.push((idx, v)),
        Err(e) => {
          notes.push(e);
        }
      }
    }
    for (i, v) in &a.violations {
      raw.push((*i, v.clone()));
    }
  }
  for n in notes.iter().take(5) {
    eprintln!("note: {}", n);
  }
  *agg.probes.entry("death_unconfirmed".into()).or_default() += notes.len() as u64;
  *agg.probes.entry("deaths_not_triaged".into()).or_default() += not_triaged;
  // the reproducers of the listed known findings are executed on every run (directed runs), so that a
  // known finding is re-confirmed (or seen to be gone) whatever the seed
  let mut directed = 0u64;
  for k in known.iter().filter(|k| k.property == "C05" && k.status == "known") {
    for (j, w) in k.reproducer["worlds"].as_array().cloned().unwrap_or_default().iter().enumerate() {
      directed += 1;
      let r = exec_isolated("c05", w, 20);
      let mut got: Option<Violation> = None;
      if r.died() {
        let class = triage::death_class(&r.how, &r.stderr);
        got = Some(Violation { class: class.into(), signature: format!("{}:{}", w["ops"][0].as_str().unwrap_or("?"), class), world: w.clone(), detail: format!("process {} ({}) on the reproducer of {}", r.how, class, k.id) });
      } else if let Some(v) = r.violations.first() {
        got = Some(v.clone());
      }
      match got {
        Some(v) => raw.push((1_000_000_000 + directed, v)),
        None => println!("note: reproducer {} of known finding {} no longer fails", j, k.id),
      }
    }
  }
  *agg.probes.entry("directed_known_reproducers".into()).or_default() += directed;
  eprintln!("phase attribution+directed: {:.1}s ({} raw violations)", t0.elapsed().as_secs_f64(), raw.len());
  // group by a cheap key on the raw world, minimise the two smallest worlds of every group (in parallel),
  // label stack overflows; known findings are matched on the minimised world only
  let mut groups: std::collections::BTreeMap<String, Vec<usize>> = Default::default();
  for (i, (_, v)) in raw.iter().enumerate() {
    let key = if v.class == "super-polynomial" { format!("sp|{}", v.signature) } else { c05t::pre_key(v) };
    groups.entry(key).or_default().push(i);
  }
  let mut reps: Vec<(usize, u64)> = Vec::new(); // (index into raw, group size)
  for (k, idxs) in groups.iter() {
    eprintln!("group {:5} x {}", idxs.len(), k.chars().take(150).collect::<String>());
  }
  for (_, idxs) in groups.iter_mut() {
    idxs.sort_by_key(|i| (c05t::world_size(&raw[*i].1), raw[*i].0));
    let n = idxs.len() as u64;
    for i in idxs.iter().take(2) {
      reps.push((*i, n));
    }
    // a group of time-outs is not decided by its smallest members alone: the smallest instances of an
    // exponential family are merely slow and return when run alone, which would drop the whole group. Also
    // take the largest member whose confirmation bound 3 x T(n) still fits (<= 600 s) and the one in the middle
    if std::env::var("VERIF_DEBUG_GROUPS").is_ok() && raw[idxs[0]].1.class == "hang" {
      for i in idxs.iter() {
        eprintln!("  hang member size={} origin={} class={}", c05t::world_size(&raw[*i].1), raw[*i].1.world["origin"], raw[*i].1.class);
      }
    }
    if idxs.len() > 2 && raw[idxs[0]].1.class == "hang" {
      let fits = |i: &usize| {
        let sz = c05t::world_size(&raw[*i].1) as f64;
        3.0 * (5.0 + 1e-6 * sz * sz * sz) <= 600.0
      };
      let rest: Vec<usize> = idxs.iter().skip(2).cloned().filter(|i| fits(i)).collect();
      if let Some(last) = rest.last() {
        reps.push((*last, n));
        let mid = rest[rest.len() / 2];
        if mid != *last {
          reps.push((mid, n));
        }
      }
    }
  }
  *agg.probes.entry("violation_groups".into()).or_default() += groups.len() as u64;
  *agg.probes.entry("violations_raw".into()).or_default() += raw.len() as u64;
  let minimised: std::sync::Mutex<Vec<(u64, Violation, u64)>> = std::sync::Mutex::new(Vec::new());
  let next = std::sync::atomic::AtomicUsize::new(0);
  std::thread::scope(|sc| {
    for _ in 0..workers.min(reps.len().max(1)) {
      sc.spawn(|| loop {
        let i = next.fetch_add(1, std::sync::atomic::Ordering::SeqCst);
        if i >= reps.len() {
          break;
        }
        let (ri, n) = reps[i];
        let (idx, v) = &raw[ri];
        if v.class == "super-polynomial" {
          minimised.lock().unwrap().push((*idx, v.clone(), n));
          continue;
        }
        let light = c05t::raw_predicate_holds(v);
        let mut m = c05t::minimise_world_opt("c05", v, 60, light);
        if light && !known.iter().any(|k| k.matches("C05", &m, &|p, v| c05t::predicate(p, v))) {
          // the light pass did not end in a known finding: minimise fully before reporting
          m = c05t::minimise_world_opt("c05", &m, 60, false);
        }
        if m.class == "stack-overflow" || m.class == "abort" || m.class == "abort-on-allocation" {
          // a label for the reader; never part of the verdict or of known-finding matching
          let wh = c05t::gdb_where("c05", &m.world);
          m.detail = format!("{} [recurring frames: {}]", m.detail, wh);
        }
        if m.class == "hang" {
          // confirm alone against 3 x T(n), T(n) = 5 s + 1 us x n^3
          let n = c05::World::from_json(&m.world).size() as f64;
          let t = 3.0 * (5.0 + 1e-6 * n * n * n);
          if t > 600.0 {
            m.class = "slow-unconfirmed".into();
          } else {
            let r = exec_isolated("c05", &m.world, t.ceil() as u64);
            if r.how != "timeout" {
              // the minimiser accepts "no return within 5 s", which is weaker than the bound: it may have shrunk an
              // exponential instance to one that is merely slow. Judge the world as it was found
              let n0 = c05t::world_size(v) as f64;
              let t0 = 3.0 * (5.0 + 1e-6 * n0 * n0 * n0);
              if m.world != v.world && t0 <= 600.0 && exec_isolated("c05", &v.world, t0.ceil() as u64).how == "timeout" {
                m = v.clone();
                m.detail = format!("{} (alone, still not returned after {:.0} s = 3 x T({}); not minimised: smaller instances return)", m.detail, t0, n0);
              } else {
                m.class = "slow-but-returns".into();
              }
            } else {
              m.detail = format!("{} (alone, still not returned after {:.0} s = 3 x T({}) )", m.detail, t, n);
            }
          }
        }
        minimised.lock().unwrap().push((*idx, m, n));
      });
    }
  });
  let mut minimised = minimised.into_inner().unwrap();
  eprintln!("phase minimise: {:.1}s ({} representatives)", t0.elapsed().as_secs_f64(), minimised.len());
  minimised.sort_by_key(|x| x.0);
  let mut findings = Vec::new();
  for (run, v, _n) in minimised {
    if v.class == "slow-unconfirmed" || v.class == "slow-but-returns" {
      *agg.probes.entry(v.class.replace('-', "_")).or_default() += 1;
      continue;
    }
    findings.push(report::Finding { run, violation: v });
  }
  // merge phase 1 into the evidence
  agg.evaluations += gagg.evaluations;
  agg.ops += gagg.ops;
  agg.children += gagg.children;
  agg.nontrivial += gagg.nontrivial;
  for fp in &gagg.distinct {
    agg.distinct.insert(*fp);
  }
  for (k, v) in &gagg.probes {
    *agg.probes.entry(k.clone()).or_default() += v;
  }
  let mut samples = gagg.samples.clone();
  samples.extend(agg.samples.clone());
  agg.samples = samples;
  agg.harness_errors.extend(gagg.harness_errors.clone());
  let mut deaths = gagg.deaths.clone();
  deaths.extend(agg.deaths.clone());
  agg.deaths = deaths;
  *agg.faults.entry("allocator_budget_armed_runs".into()).or_default() += agg.evaluations;
  *agg.faults.entry("stack_budget_8MiB_runs".into()).or_default() += agg.evaluations;
  *agg.faults.entry("watchdog_armed_runs".into()).or_default() += agg.evaluations;
  let rep = report::Report {
    property: "C05",
    check: "c05",
    seed,
    tier,
    level: "exploration",
    rule: "one evaluation = one world (schema text + JSON + CBOR + CSV documents; built from fixtures, from a random document with a schema inferred from it, from the grammar, or from a nesting/size family within the 64 KiB / depth-64 bounds; 0-3 faults on the stored bytes) executed through parse, checked parse, root name, format (+ reparse and reformat), JSON / CBOR / CSV validation (both header flags) and decode_cbor in a disposable child with an allocator budget, an 8 MiB stack and a 20 s watchdog; plus one evaluation per (family, operation) of the allocator-call growth series. non-trivial = the schema parsed and at least one validator got past document parsing; distinct = distinct FNV digests of (world bytes, per-operation outcomes)".into(),
    assumptions: vec![
      "allocator budget: a single request above max(32 MiB, 1024 x input size) or more than max(256 MiB, 2048 x input size) live is memory the input does not justify".into(),
      "time bound T(n) = 5 s + 1 us x n^3; a hang is reported only after minimisation and confirmation alone against 3 x T(n) (<= 10 min), otherwise counted under the probe slow_unconfirmed".into(),
      "growth check: allocator calls are a proxy for work; >= 12x per +4 nesting levels (or >= 64x per doubling of size) twice in a row is super-polynomial".into(),
      "gdb only labels stack overflows; the verdict is the death of the child, confirmed by re-executing the world alone".into(),
    ],
    real_components: vec!["cddl library of the /repo working tree (all public non-wasm entry points)".into(), "all of its dependencies as locked by /repo/Cargo.lock".into(), "the system allocator behind the counting/budget shim".into()],
    stub_components: vec!["none".into()],
    extra: Default::default(),
  };
  report::finish(&rep, &agg, findings, t0.elapsed().as_secs_f64(), None, &|p, v| c05t::predicate(p, v))
}

// ------------------------------------------------------------------------------------------------
// engine B (Miri) phase shared by C14 and C17

struct MiriPhase {
  findings: Vec<report::Finding>,
  harness_errors: Vec<String>,
  extra: serde_json::Value,
  runs: u64,
  distinct: std::collections::BTreeSet<u64>,
}

fn miri_phase(property: &'static str, kind: &'static str, n_scenarios: usize, seed: u64, tier: Tier) -> MiriPhase {
  if kind != "c14" {
    return miri_phase_kind(property, kind, n_scenarios, seed, tier);
  }
  // concurrent callers, plus (at the same time) the barrier-synchronised cold-start scenarios
  if let Err(e) = miri::build() {
    let mut ph = MiriPhase { findings: vec![], harness_errors: vec![e], extra: serde_json::json!({}), runs: 0, distinct: Default::default() };
    ph.extra = serde_json::json!({"error": "build failed"});
    return ph;
  }
  let (mut ph, t) = std::thread::scope(|sc| {
    let a = sc.spawn(|| miri_phase_kind(property, kind, n_scenarios, seed, tier));
    let b = sc.spawn(|| miri_phase_kind(property, "twin", 4, seed, tier));
    (a.join().expect("miri phase"), b.join().expect("miri phase"))
  });
  {
    ph.findings.extend(t.findings);
    ph.harness_errors.extend(t.harness_errors);
    ph.runs += t.runs;
    ph.distinct.extend(t.distinct);
    ph.extra = serde_json::json!({"concurrent_callers": ph.extra, "twin_cold_start": t.extra});
  }
  ph
}

fn miri_phase_kind(property: &'static str, kind: &'static str, n_scenarios: usize, seed: u64, tier: Tier) -> MiriPhase {
  let mut ph = MiriPhase { findings: vec![], harness_errors: vec![], extra: serde_json::json!({}), runs: 0, distinct: Default::default() };
  if std::env::var("VERIF_NO_MIRI").is_ok() {
    ph.extra = serde_json::json!({"skipped": "VERIF_NO_MIRI set"});
    return ph;
  }
  let (n_scn, n_seeds) = match tier {
    Tier::Quick => (if kind == "c14" { 2 } else { 1 }, 3u64),
    Tier::Thorough => (n_scenarios, 8u64),
  };
  let lo = (seed % 1_000_000) * 64;
  let scns: Vec<usize> = (0..n_scn).map(|k| ((seed as usize) + k) % n_scenarios).collect();
  // build once (a trivial scenario under Miri), then the batches run concurrently
  let batches: std::sync::Mutex<Vec<miri::MiriBatch>> = std::sync::Mutex::new(Vec::new());
  if let Err(e) = miri::build() {
    ph.harness_errors.push(e);
    return ph;
  }
  {
    let par = if tier == Tier::Quick { scns.len() } else { 2 };
    let next = std::sync::atomic::AtomicUsize::new(0);
    std::thread::scope(|sc| {
      for _ in 0..par {
        sc.spawn(|| loop {
          let i = next.fetch_add(1, std::sync::atomic::Ordering::SeqCst);
          if i >= scns.len() {
            break;
          }
          let b = miri::run_batch(kind, scns[i], lo, lo + n_seeds);
          batches.lock().unwrap().push(b);
        });
      }
    });
  }
  let mut batches = batches.into_inner().unwrap();
  batches.sort_by_key(|b| b.scenario);
  let mut per = Vec::new();
  for b in &batches {
    if let Some(e) = &b.harness_error {
      ph.harness_errors.push(format!("miri {} scenario {}: {}", kind, b.scenario, e));
    }
    ph.runs += b.results + b.mismatch_lines.len() as u64;
    for (t, _) in &b.traces {
      ph.distinct.insert(crate::rng::fnv(format!("{}:{}:{}", kind, b.scenario, t).as_bytes()));
    }
    for (run, v) in miri::judge(b, property) {
      ph.findings.push(report::Finding { run, violation: v });
    }
    per.push(serde_json::json!({
      "scenario": b.scenario, "miri_seeds": format!("{}..{}", b.seeds.0, b.seeds.1), "outcomes": b.results,
      "digests": b.digests, "native_digest": b.native_digest, "distinct_call_order_traces": b.traces.len(),
      "traces": b.traces, "failing_seeds": b.failing_seeds, "diagnostics": b.diagnostics, "wall_s": (b.wall_s * 10.0).round() / 10.0,
    }));
  }
  ph.extra = serde_json::json!({
    "what": "unmodified cddl + dependencies + std interpreted by Miri; the Miri seed owns the thread scheduler (pre-emption rate 0.1 per basic block), addresses and getrandom (all hash keys); data-race and deadlock detection on",
    "flags": format!("-Zmiri-many-seeds=<lo>..<hi> -Zmiri-preemption-rate={}", miri::PREEMPTION_RATE),
    "batches": per,
  });
  ph
}

// ------------------------------------------------------------------------------------------------
// C14 (engine A: native history simulator)

fn run_c14(seed: u64, tier: Tier) -> i32 {
  let t0 = Instant::now();
  let workers = workers_from_env();
  let total = runs_from_env(match tier {
    Tier::Quick => 4_000,
    Tier::Thorough => 2_000_000,
  });
  let plan = Plan {
    check: "c14",
    seed,
    tier,
    total,
    batch: 100,
    workers,
    deadline: if tier == Tier::Thorough { thorough_deadline(900) } else { None },
    keep_fps: false,
    sample_below: 4,
    max_deaths: 0,
  };
  let mut agg = run_plan(&plan);
  eprintln!("phase search: {:.1}s ({} deaths, {} violations)", t0.elapsed().as_secs_f64(), agg.deaths.len(), agg.violations.len());
  // a child that dies here died of something C05 is about (stack, allocation, hang); it is counted, not judged
  let n_deaths = agg.deaths.len() as u64;
  agg.probe("deaths_left_to_C05", n_deaths);
  // group by (class, signature); minimise the representative of each group
  let groups = triage::group(&agg.violations);
  let minimised: std::sync::Mutex<Vec<(u64, Violation)>> = std::sync::Mutex::new(Vec::new());
  let next = std::sync::atomic::AtomicUsize::new(0);
  std::thread::scope(|sc| {
    for _ in 0..workers.min(groups.len().max(1)) {
      sc.spawn(|| loop {
        let i = next.fetch_add(1, std::sync::atomic::Ordering::SeqCst);
        if i >= groups.len() || i >= 40 {
          break;
        }
        let (run, v, _) = &groups[i];
        let m = if v.class == "harness" { v.clone() } else { c14::minimise(v, 60) };
        minimised.lock().unwrap().push((*run, m));
      });
    }
  });
  let mut minimised = minimised.into_inner().unwrap();
  minimised.sort_by_key(|x| x.0);
  let mut findings: Vec<report::Finding> = minimised.into_iter().map(|(run, violation)| report::Finding { run, violation }).collect();
  eprintln!("phase native done: {:.1}s", t0.elapsed().as_secs_f64());
  // engine B
  let ph = miri_phase("C14", "c14", 7, seed, tier);
  eprintln!("phase miri done: {:.1}s ({} outcomes)", t0.elapsed().as_secs_f64(), ph.runs);
  findings.extend(ph.findings);
  agg.harness_errors.extend(ph.harness_errors);
  agg.evaluations += ph.runs;
  agg.nontrivial += ph.runs;
  for d in &ph.distinct {
    agg.distinct.insert(*d);
  }
  *agg.faults.entry("miri_seeded_schedules_and_entropy".into()).or_default() += ph.runs;
  let mut extra = std::collections::BTreeMap::new();
  extra.insert("engine_B_miri".to_string(), ph.extra);
  let rep = report::Report {
    property: "C14",
    check: "c14",
    seed,
    tier,
    level: "exploration",
    rule: "one evaluation = one history: a pool of related calls (schemas that reuse rule names with different definitions; one literal under .regexp/.pcre/.iregexp; one schema under every feature list; malformed schema / malformed document / non-conforming document for one base schema; fixtures; one AST shared by reference) issued 4-24 times by 1-4 simulated clients (real threads released one at a time by a seeded baton scheduler at API-call boundaries); every response is compared with the same call made alone in a fresh process and checked for non-empty error lists, the reserved error kinds and resolvable JSON locations. non-trivial = at least 3 calls and 2 different response kinds; distinct = distinct FNV digests of (pool, schedule, responses)".into(),
    assumptions: vec![
      "the sequential reference of a stateless API is the same call made alone: computed in a grandchild of a pristine copy of the process forked before any library code ran".into(),
      "interleavings here are at call granularity (the baton); instruction-level interleavings of unmodified code are engine B (Miri)".into(),
      "error-kind oracle: cddl_from_str for the schema, serde_json / the RFC 8949 reference model for the document; CSV has no malformed documents (flexible reader)".into(),
    ],
    real_components: vec!["cddl library of the /repo working tree: validate_json_from_str, validate_cbor_from_slice, validate_csv_from_str, JSONValidator / CBORValidator on a shared AST, cddl_from_str + Display".into(), "all dependencies as locked by /repo/Cargo.lock; real OS threads, real thread-locals and hash keys".into()],
    stub_components: vec!["the scheduler between clients (baton) is the simulator's".into()],
    extra,
  };
  report::finish(&rep, &agg, findings, t0.elapsed().as_secs_f64(), None, &|_, _| true)
}

// ------------------------------------------------------------------------------------------------
// C18 (the real CLI binary against seed-built worlds)

fn run_c18(seed: u64, tier: Tier) -> i32 {
  let t0 = Instant::now();
  let workers = workers_from_env();
  let cli = std::env::var("VERIF_CLI").unwrap_or_else(|_| report::verif_dir().join("target/repo/debug/cddl").to_string_lossy().to_string());
  if !std::path::Path::new(&cli).exists() {
    eprintln!("HARNESS-ERROR: the cddl binary {} does not exist (./check builds it from /repo)", cli);
    return 2;
  }
  let total = runs_from_env(match tier {
    Tier::Quick => 4_500,
    Tier::Thorough => 400_000,
  });
  let plan = Plan {
    check: "c18",
    seed,
    tier,
    total,
    batch: 100,
    workers,
    deadline: if tier == Tier::Thorough { thorough_deadline(900) } else { None },
    keep_fps: false,
    sample_below: 5,
    max_deaths: 0,
  };
  let mut agg = run_plan(&plan);
  eprintln!("phase search: {:.1}s ({} deaths, {} violations)", t0.elapsed().as_secs_f64(), agg.deaths.len(), agg.violations.len());
  let n_deaths = agg.deaths.len() as u64;
  agg.probe("harness_child_deaths_left_to_C05", n_deaths);
  let groups = triage::group(&agg.violations);
  let minimised: std::sync::Mutex<Vec<(u64, Violation)>> = std::sync::Mutex::new(Vec::new());
  let next = std::sync::atomic::AtomicUsize::new(0);
  std::thread::scope(|sc| {
    for _ in 0..workers.min(groups.len().max(1)) {
      sc.spawn(|| loop {
        let i = next.fetch_add(1, std::sync::atomic::Ordering::SeqCst);
        if i >= groups.len() || i >= 40 {
          break;
        }
        let (run, v, _) = &groups[i];
        let m = if v.class == "harness" { v.clone() } else { c18::minimise(v, 60) };
        minimised.lock().unwrap().push((*run, m));
      });
    }
  });
  let mut minimised = minimised.into_inner().unwrap();
  minimised.sort_by_key(|x| x.0);
  let mut findings = Vec::new();
  for (run, v) in minimised {
    if v.class == "harness" {
      agg.harness_errors.push(format!("{}: {}", v.signature, v.detail));
      continue;
    }
    findings.push(report::Finding { run, violation: v });
  }
  let rep = report::Report {
    property: "C18",
    check: "c18",
    seed,
    tier,
    level: "exploration",
    rule: "one evaluation = one invocation of the real cddl binary in a private directory built from the seed: schema file (valid / invalid / missing / directory / non-UTF-8 / empty), 0-3 documents per --json/--cbor/--csv route (as generated / truncated / empty / missing / directory / non-UTF-8 / dangling symlink), optional --stdin (JSON, CBOR, CBOR that is valid UTF-8, empty), --ci, --features, --csv-header, routes permuted, repeated flags or comma lists; also compile-cddl. Every report line is compared with the library call made in-process with the same features and header flag; a reference model says which documents the tool gets to; with --ci the exit status is compared. non-trivial = at least one verdict was reported (or compile-cddl ran); distinct = distinct FNV digests of (world, exit status, report events)".into(),
    assumptions: vec![
      "log line format: Validation of \"<path>\" is successful|failed, Validation from stdin is ..., <kind> \"<path>\" does not exist; file names are [a-z0-9.] so {:?} quoting is the identity".into(),
      "the tool processes --json, --cbor, --csv, --stdin in that order, stops at the first failure under --ci and at the first unreadable file; without --ci the exit status is not constrained by the property and not checked".into(),
      "a document the tool does not get to (after a stop) is not required to be reported".into(),
    ],
    real_components: vec!["target/repo/debug/cddl built from the /repo working tree (real process, real files, real stdin pipe)".into(), "cddl library of the /repo working tree linked into the harness (the oracle's library calls)".into()],
    stub_components: vec!["none: the world is a real private directory".into()],
    extra: Default::default(),
  };
  report::finish(&rep, &agg, findings, t0.elapsed().as_secs_f64(), None, &|p, v| c18::predicate(p, v))
}

// ------------------------------------------------------------------------------------------------
// C17, determinism clause (native engine)

fn run_c17(seed: u64, tier: Tier) -> i32 {
  let t0 = Instant::now();
  let workers = workers_from_env();
  let total = runs_from_env(match tier {
    Tier::Quick => 2_500,
    Tier::Thorough => 400_000,
  });
  let plan = Plan {
    check: "c17",
    seed,
    tier,
    total,
    batch: 100,
    workers,
    deadline: if tier == Tier::Thorough { thorough_deadline(600) } else { None },
    keep_fps: false,
    sample_below: 5,
    max_deaths: 0,
  };
  let mut agg = run_plan(&plan);
  eprintln!("phase search: {:.1}s ({} deaths, {} violations)", t0.elapsed().as_secs_f64(), agg.deaths.len(), agg.violations.len());
  let n_deaths = agg.deaths.len() as u64;
  agg.probe("child_deaths_left_to_C05", n_deaths);
  let groups = triage::group(&agg.violations);
  let minimised: std::sync::Mutex<Vec<(u64, Violation)>> = std::sync::Mutex::new(Vec::new());
  let next = std::sync::atomic::AtomicUsize::new(0);
  std::thread::scope(|sc| {
    for _ in 0..workers.min(groups.len().max(1)) {
      sc.spawn(|| loop {
        let i = next.fetch_add(1, std::sync::atomic::Ordering::SeqCst);
        if i >= groups.len() || i >= 40 {
          break;
        }
        let (run, v, _) = &groups[i];
        let m = c17::minimise(v, 60);
        minimised.lock().unwrap().push((*run, m));
      });
    }
  });
  let mut minimised = minimised.into_inner().unwrap();
  minimised.sort_by_key(|x| x.0);
  let mut findings: Vec<report::Finding> = minimised.into_iter().map(|(run, violation)| report::Finding { run, violation }).collect();
  eprintln!("phase native done: {:.1}s", t0.elapsed().as_secs_f64());
  let ph = miri_phase("C17", "c17", 5, seed, tier);
  eprintln!("phase miri done: {:.1}s ({} outcomes)", t0.elapsed().as_secs_f64(), ph.runs);
  findings.extend(ph.findings);
  agg.harness_errors.extend(ph.harness_errors);
  agg.evaluations += ph.runs;
  agg.nontrivial += ph.runs;
  for d in &ph.distinct {
    agg.distinct.insert(*d);
  }
  *agg.faults.entry("miri_seeded_entropy".into()).or_default() += ph.runs;
  let mut extra = std::collections::BTreeMap::new();
  extra.insert("engine_B_miri".to_string(), ph.extra);
  let rep = report::Report {
    property: "C17",
    check: "c17",
    seed,
    tier,
    level: "exploration",
    rule: "DETERMINISM CLAUSE ONLY. one evaluation = one (schema, options, all-types | single-type) job (cddl-derive fixtures, hand-built hazards: several tagged prelude fields, field names colliding after snake-casing, socket/plug alternates, recursive SCCs, many rules; schemas inferred from random documents; repository fixtures) generated by the current cddl-derive/src/codegen.rs in a fresh process, twice on the coordinating thread, after generating the other schemas of the run, and twice on each of two fresh threads (fresh hash keys, different numbers of hash containers created before): all outputs must be byte-identical; type names unique, field / variant names unique per type. non-trivial = generation succeeded; distinct = distinct FNV digests of (job, output)".into(),
    assumptions: vec![
      "only the last sentence of C17 is addressed: the compile and round-trip clauses are pure functions of the schema and are not decided by this check".into(),
      "codegen.rs is compiled into the harness with #[path] from /repo's working tree (the proc-macro entry points only add file reading)".into(),
      "uniqueness is checked on the rendered text through the renderer's fixed templates".into(),
    ],
    real_components: vec!["cddl-derive/src/codegen.rs of the /repo working tree".into(), "cddl parser of the /repo working tree".into(), "std RandomState hash keys, real threads, a real fresh process".into()],
    stub_components: vec!["none".into()],
    extra,
  };
  report::finish(&rep, &agg, findings, t0.elapsed().as_secs_f64(), None, &|p, v| c17::predicate(p, v))
}

// ------------------------------------------------------------------------------------------------
// replay

fn replay(path: &str) -> i32 {
  let body: serde_json::Value = match std::fs::read_to_string(path).map_err(|e| e.to_string()).and_then(|s| serde_json::from_str(&s).map_err(|e| e.to_string())) {
    Ok(v) => v,
    Err(e) => {
      eprintln!("HARNESS-ERROR: cannot read replay file {}: {}", path, e);
      return 2;
    }
  };
  let check = body["check"].as_str().unwrap_or("");
  let class = body["violation"]["class"].as_str().unwrap_or("");
  let signature = body["violation"]["signature"].as_str().unwrap_or("");
  if check_by_name(check).is_none() {
    eprintln!("HARNESS-ERROR: unknown check {:?} in replay file", check);
    return 2;
  }
  if body["world"]["engine"].as_str() == Some("miri") {
    let (hit, what) = miri::replay(&body["world"], class);
    println!("replay (miri seed {}): {}", body["world"]["miri_seed"], what);
    if hit {
      println!("REPRODUCED property={} class={} signature={}", body["property"].as_str().unwrap_or("?"), class, signature);
      return 1;
    }
    println!("not reproduced");
    return 0;
  }
  let r = exec_isolated(check, &body["world"], 120);
  let mut hit = false;
  if r.died() {
    let c = triage::death_class(&r.how, &r.stderr);
    println!("replay: process {} ({})", r.how, c);
    hit = c == class;
  }
  for v in &r.violations {
    println!("replay: class={} signature={} :: {}", v.class, v.signature, v.detail);
    if v.class == class && v.signature == signature {
      hit = true;
    }
  }
  if hit {
    println!("REPRODUCED property={} class={} signature={}", body["property"].as_str().unwrap_or("?"), class, signature);
    1
  } else {
    println!("not reproduced");
    0
  }
}

// ------------------------------------------------------------------------------------------------
// determinism self-test of the simulator: same seed => same per-run fingerprints, whatever the worker count

fn selftest_determinism(args: &[String]) -> i32 {
  let checks: Vec<&str> = if args.is_empty() { vec!["c11"] } else { args.iter().map(|s| s.as_str()).collect() };
  let seed = seed_from_env();
  let mut bad = 0;
  for c in checks {
    let name: &'static str = match check_by_name(c) {
      Some(k) => k.name(),
      None => {
        eprintln!("unknown check {}", c);
        return 2;
      }
    };
    let n = runs_from_env(400);
    let mut fps = Vec::new();
    for (workers, batch) in [(1usize, 50u64), (16, 7), (5, 400)] {
      let plan = Plan { check: name, seed, tier: Tier::Quick, total: n, batch, workers, deadline: None, keep_fps: true, sample_below: 0, max_deaths: 0 };
      let a = run_plan(&plan);
      fps.push(a.fps);
    }
    let same = fps[0] == fps[1] && fps[1] == fps[2] && fps[0].len() as u64 == n;
    println!("determinism {}: {} runs x 3 configurations (workers 1/16/5, batches 50/7/400): {}", c, n, if same { "identical fingerprints" } else { "DIFFERENT" });
    if !same {
      for (i, fp) in &fps[0] {
        if fps[1].get(i) != Some(fp) || fps[2].get(i) != Some(fp) {
          println!("  run {} differs: {:016x} {:?} {:?}", i, fp, fps[1].get(i), fps[2].get(i));
          bad += 1;
          if bad > 10 {
            break;
          }
        }
      }
      bad += 1;
    }
  }
  if bad > 0 {
    2
  } else {
    0
  }
}
