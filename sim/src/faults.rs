//! Faults on bytes at rest: what a stored / transmitted schema or document can suffer.
//! Every fault is explicit (kind + parameters) so that a replay file can list it.

use crate::rng::Rng;

#[derive(Clone, Debug)]
pub enum Fault {
  Truncate(usize),
  BitFlip(usize, u8),
  Overwrite(usize, u8),
  Insert(usize, Vec<u8>),
  Delete(usize, usize),
  DupSpan(usize, usize),
  Splice(usize, Vec<u8>),
  /// CBOR head at offset rewritten with additional information 28..=31
  ReservedAi(usize, u8),
  /// CBOR head at offset replaced by a head of the same major type announcing `n` (8-byte or 4-byte form)
  HostileLen(usize, u64, bool),
  /// stray break inserted at offset
  StrayBreak(usize),
  /// major type of the head at offset replaced
  MajorSwap(usize, u8),
}

impl Fault {
  pub fn kind(&self) -> &'static str {
    match self {
      Fault::Truncate(_) => "truncate",
      Fault::BitFlip(..) => "bitflip",
      Fault::Overwrite(..) => "overwrite",
      Fault::Insert(..) => "insert",
      Fault::Delete(..) => "delete",
      Fault::DupSpan(..) => "dupspan",
      Fault::Splice(..) => "splice",
      Fault::ReservedAi(..) => "reserved_ai",
      Fault::HostileLen(..) => "hostile_len",
      Fault::StrayBreak(_) => "stray_break",
      Fault::MajorSwap(..) => "major_swap",
    }
  }

  pub fn describe(&self) -> String {
    format!("{:?}", self)
  }

  pub fn apply(&self, b: &[u8]) -> Vec<u8> {
    let mut v = b.to_vec();
    match self {
      Fault::Truncate(k) => v.truncate(*k),
      Fault::BitFlip(p, bit) => {
        if let Some(x) = v.get_mut(*p) {
          *x ^= 1 << (bit & 7);
        }
      }
      Fault::Overwrite(p, x) => {
        if let Some(y) = v.get_mut(*p) {
          *y = *x;
        }
      }
      Fault::Insert(p, xs) => {
        let p = (*p).min(v.len());
        v.splice(p..p, xs.iter().cloned());
      }
      Fault::Delete(p, n) => {
        let p = (*p).min(v.len());
        let e = (p + n).min(v.len());
        v.drain(p..e);
      }
      Fault::DupSpan(p, n) => {
        let p = (*p).min(v.len());
        let e = (p + n).min(v.len());
        let span: Vec<u8> = v[p..e].to_vec();
        v.splice(e..e, span);
      }
      Fault::Splice(p, xs) => {
        let p = (*p).min(v.len());
        let e = (p + xs.len()).min(v.len());
        v.splice(p..e, xs.iter().cloned());
      }
      Fault::ReservedAi(p, ai) => {
        if let Some(x) = v.get_mut(*p) {
          *x = (*x & 0xe0) | (ai & 0x1f);
        }
      }
      Fault::HostileLen(p, n, wide) => {
        if *p < v.len() {
          let ib = v[*p];
          let ai = ib & 0x1f;
          let w = match ai {
            24 => 1,
            25 => 2,
            26 => 4,
            27 => 8,
            _ => 0,
          };
          let e = (*p + 1 + w).min(v.len());
          let mut h = Vec::new();
          if *wide || *n > 0xffff_ffff {
            h.push((ib & 0xe0) | 27);
            h.extend_from_slice(&n.to_be_bytes());
          } else {
            h.push((ib & 0xe0) | 26);
            h.extend_from_slice(&(*n as u32).to_be_bytes());
          }
          v.splice(*p..e, h);
        }
      }
      Fault::StrayBreak(p) => {
        let p = (*p).min(v.len());
        v.insert(p, 0xff);
      }
      Fault::MajorSwap(p, m) => {
        if let Some(x) = v.get_mut(*p) {
          *x = (*x & 0x1f) | ((m & 7) << 5);
        }
      }
    }
    v
  }
}

/// Offsets of every initial byte (head) in the well-formed prefix of `b`, chunk heads included.
/// Best effort on ill-formed input: stops at the first thing it cannot walk.
pub fn cbor_heads(b: &[u8]) -> Vec<usize> {
  fn walk(b: &[u8], pos: &mut usize, out: &mut Vec<usize>, depth: usize) -> bool {
    if depth > 200 || *pos >= b.len() {
      return false;
    }
    let o = *pos;
    let ib = b[o];
    let mt = ib >> 5;
    let ai = ib & 0x1f;
    out.push(o);
    *pos += 1;
    let mut arg: u64 = ai as u64;
    match ai {
      24..=27 => {
        let w = 1usize << (ai - 24);
        if *pos + w > b.len() {
          return false;
        }
        arg = 0;
        for k in 0..w {
          arg = arg << 8 | b[*pos + k] as u64;
        }
        *pos += w;
      }
      28..=30 => return false,
      _ => {}
    }
    if ai == 31 {
      return match mt {
        2 | 3 | 4 | 5 => {
          loop {
            if *pos >= b.len() {
              return false;
            }
            if b[*pos] == 0xff {
              out.push(*pos);
              *pos += 1;
              return true;
            }
            if !walk(b, pos, out, depth + 1) {
              return false;
            }
            if mt == 5 && !walk(b, pos, out, depth + 1) {
              return false;
            }
          }
        }
        _ => mt == 7,
      };
    }
    match mt {
      0 | 1 | 7 => true,
      2 | 3 => {
        if arg > (b.len() - *pos) as u64 {
          return false;
        }
        *pos += arg as usize;
        true
      }
      4 => {
        for _ in 0..arg {
          if !walk(b, pos, out, depth + 1) {
            return false;
          }
        }
        true
      }
      5 => {
        for _ in 0..arg {
          if !walk(b, pos, out, depth + 1) || !walk(b, pos, out, depth + 1) {
            return false;
          }
        }
        true
      }
      _ => walk(b, pos, out, depth + 1),
    }
  }
  let mut out = Vec::new();
  let mut pos = 0;
  walk(b, &mut pos, &mut out, 0);
  out
}

pub fn hostile_len_value(r: &mut Rng) -> u64 {
  let k = r.range(3, 64) as u32;
  let base: u128 = 1u128 << k;
  let v = match r.below(3) {
    0 => base - 1,
    1 => base,
    _ => base + 1,
  };
  if v > u64::MAX as u128 {
    u64::MAX
  } else {
    v as u64
  }
}

/// A random byte-level fault on `b` (generic: schema text, JSON text, CSV, CBOR).
pub fn random_byte_fault(r: &mut Rng, b: &[u8], donor: &[u8]) -> Fault {
  let len = b.len().max(1);
  match r.below(7) {
    0 => Fault::Truncate(r.below(len)),
    1 => Fault::BitFlip(r.below(len), r.below(8) as u8),
    2 => Fault::Overwrite(r.below(len), r.byte()),
    3 => {
      let n = r.range(1, 3);
      Fault::Insert(r.below(len + 1), (0..n).map(|_| r.byte()).collect())
    }
    4 => Fault::Delete(r.below(len), r.range(1, 4)),
    5 => Fault::DupSpan(r.below(len), r.range(1, 12)),
    _ => {
      if donor.is_empty() {
        Fault::Overwrite(r.below(len), r.byte())
      } else {
        let s = r.below(donor.len());
        let e = (s + r.range(1, 16)).min(donor.len());
        Fault::Splice(r.below(len), donor[s..e].to_vec())
      }
    }
  }
}

/// A random CBOR-aware fault (needs the head offsets of the intact encoding).
pub fn random_cbor_fault(r: &mut Rng, b: &[u8], heads: &[usize], donor: &[u8]) -> Fault {
  if heads.is_empty() || r.chance(2, 5) {
    return random_byte_fault(r, b, donor);
  }
  let h = *r.pick(heads);
  match r.below(5) {
    0 => Fault::ReservedAi(h, r.range(28, 31) as u8),
    1 => Fault::HostileLen(h, hostile_len_value(r), r.coin()),
    2 => Fault::StrayBreak(h),
    3 => Fault::MajorSwap(h, r.below(8) as u8),
    _ => Fault::HostileLen(h, (b.len() - h) as u64 + r.below(3) as u64, false),
  }
}
