//! Triage for C05: attribute child deaths to an operation of an explicit world, minimise, label
//! (gdb for stack overflows, never for the verdict), and the predicates of the known findings.

use crate::c05::World;
use crate::kernel::*;
use crate::minimize::{ddmin, Budget};
use crate::triage::death_class;
use serde_json::Value;
use std::collections::BTreeMap;
use std::process::Command;

/// From a death of run `idx`: the explicit world (restricted to the operation in flight) and the class.
pub fn death_to_violation(check: &str, seed: u64, tier: Tier, d: &Death) -> Result<Violation, String> {
  let tr = trace_run(check, seed, tier, d.idx);
  let class = death_class(&tr.how, &tr.stderr);
  if class == "ok" {
    return Err(format!("death of run {} ({}) did not reproduce in isolation", d.idx, d.how));
  }
  let mut world: Option<Value> = None;
  let mut op: Option<String> = None;
  for o in &tr.ops {
    if let Some(w) = o.strip_prefix("world ") {
      world = serde_json::from_str(w).ok();
      op = None;
    } else if let Some(x) = o.strip_prefix("op ") {
      op = Some(x.to_string());
    }
  }
  match (world, op) {
    (Some(mut w), Some(op)) => {
      w["ops"] = serde_json::json!([op]);
      let last = tr.stderr.lines().rev().find(|l| !l.trim().is_empty()).unwrap_or("").to_string();
      Ok(Violation {
        class: class.into(),
        signature: format!("{}:{}", op, class),
        world: w,
        detail: format!("process {} during {} ({}): {}", tr.how, op, class, last),
      })
    }
    _ => Err(format!("death of run {} ({}): no operation in flight in the trace", d.idx, tr.how)),
  }
}

fn same_failure(check: &str, w: &Value, class: &str, signature: &str, wd: u64) -> bool {
  let r = exec_isolated(check, w, wd);
  if r.died() {
    return death_class(&r.how, &r.stderr) == class;
  }
  if class == "panic" {
    return r.violations.iter().any(|v| v.class == class && v.signature == signature);
  }
  false
}

fn get_text(w: &Value, key: &str) -> Option<String> {
  w[key]["text"].as_str().map(|s| s.to_string())
}

fn set_text(w: &mut Value, key: &str, s: &str) {
  w[key] = serde_json::json!({"text": s});
}

/// Minimise a C05 world: drop documents the operation does not need, schema lines, then schema and
/// document characters, keeping the same failure.
pub fn minimise_world(check: &str, v: &Violation, secs: u64) -> Violation {
  minimise_world_opt(check, v, secs, false)
}

/// `light`: documents and schema lines only (enough for the line-based known-finding predicates); used for
/// groups whose raw world already satisfies a known-finding predicate.
pub fn minimise_world_opt(check: &str, v: &Violation, secs: u64, light: bool) -> Violation {
  let wd: u64 = if v.class == "hang" { 5 } else { 20 };
  let mut budget = Budget::new(if v.class == "hang" { 40 } else { 300 }, secs);
  let class = v.class.clone();
  let sig = v.signature.clone();
  let mut w = v.world.clone();
  if !same_failure(check, &w, &class, &sig, wd) {
    return v.clone();
  }
  // documents not needed?
  for key in ["json", "cbor", "csv", "features"] {
    if !w[key].is_null() {
      let mut c = w.clone();
      c[key] = Value::Null;
      if same_failure(check, &c, &class, &sig, wd) {
        w = c;
      }
    }
  }
  // schema lines
  if let Some(s) = get_text(&w, "schema") {
    let lines: Vec<String> = s.lines().map(|l| l.to_string()).collect();
    if lines.len() > 1 {
      let base = w.clone();
      let mut pred = |ls: &[String]| {
        let mut c = base.clone();
        set_text(&mut c, "schema", &(ls.join("\n") + "\n"));
        same_failure(check, &c, &class, &sig, wd)
      };
      let small = ddmin(lines, &mut budget, &mut pred);
      set_text(&mut w, "schema", &(small.join("\n") + "\n"));
    }
  }
  // simple documents
  for (key, cands) in [("json", vec!["0", "\"\"", "[]", "{}", "null", "[0]", "\"abc\""])] {
    if get_text(&w, key).is_some() {
      for c in cands {
        let mut x = w.clone();
        set_text(&mut x, key, c);
        if same_failure(check, &x, &class, &sig, wd) {
          w = x;
          break;
        }
      }
    }
  }
  if let Some(h) = w["cbor"].as_str().map(|s| s.to_string()) {
    for c in ["00", "60", "80", "a0", "f6", "6161"] {
      if c.len() < h.len() {
        let mut x = w.clone();
        x["cbor"] = Value::String(c.to_string());
        if same_failure(check, &x, &class, &sig, wd) {
          w = x;
          break;
        }
      }
    }
  }
  if light {
    let mut out = v.clone();
    out.world = w;
    return out;
  }
  // characters of each schema line (line structure is kept, so that the known-finding predicates,
  // which read rules line by line, see the same rules the parser sees)
  if let Some(s) = get_text(&w, "schema") {
    let mut lines: Vec<String> = s.lines().map(|l| l.to_string()).collect();
    if s.len() <= 600 {
      for li in 0..lines.len() {
        let cs: Vec<char> = lines[li].chars().collect();
        if cs.len() < 2 {
          continue;
        }
        let base = w.clone();
        let snapshot = lines.clone();
        let mut pred = |x: &[char]| {
          let mut ls = snapshot.clone();
          ls[li] = x.iter().collect::<String>();
          let mut c = base.clone();
          set_text(&mut c, "schema", &(ls.join("\n") + "\n"));
          same_failure(check, &c, &class, &sig, wd)
        };
        let small = ddmin(cs, &mut budget, &mut pred);
        lines[li] = small.iter().collect::<String>();
      }
      set_text(&mut w, "schema", &(lines.join("\n") + "\n"));
    }
  }
  // structure of a JSON document: replace it by one of its sub-values, or drop one element / member
  if let Some(j) = get_text(&w, "json") {
    if let Ok(mut doc) = serde_json::from_str::<serde_json::Value>(&j) {
      // its own budget: the schema passes may have used up theirs
      let mut budget = Budget::new(120, secs.max(30));
      let mut progress = true;
      while progress && budget.steps > 0 {
        progress = false;
        let mut cands: Vec<serde_json::Value> = Vec::new();
        match &doc {
          serde_json::Value::Array(a) => cands.extend(a.iter().cloned()),
          serde_json::Value::Object(o) => cands.extend(o.values().cloned()),
          _ => {}
        }
        cands.extend(json_shrinks(&doc));
        cands.truncate(300);
        for c in cands {
          if budget.steps == 0 {
            break;
          }
          budget.steps -= 1;
          let mut x = w.clone();
          set_text(&mut x, "json", &c.to_string());
          if same_failure(check, &x, &class, &sig, wd) {
            w = x;
            doc = c;
            progress = true;
            break;
          }
        }
      }
    }
  }
  // characters of short documents
  for key in ["json", "csv"] {
    if let Some(s) = get_text(&w, key) {
      let cs: Vec<char> = s.chars().collect();
      if cs.len() > 1 && cs.len() <= 400 {
        let base = w.clone();
        let mut pred = |x: &[char]| {
          let mut c = base.clone();
          set_text(&mut c, key, &x.iter().collect::<String>());
          same_failure(check, &c, &class, &sig, wd)
        };
        let small = ddmin(cs, &mut budget, &mut pred);
        set_text(&mut w, key, &small.iter().collect::<String>());
      }
    }
  }
  if let Some(h) = w["cbor"].as_str().map(|s| s.to_string()) {
    let b = unhex(&h);
    if b.len() > 1 && b.len() <= 400 {
      let base = w.clone();
      let mut pred = |x: &[u8]| {
        let mut c = base.clone();
        c["cbor"] = Value::String(hex(x));
        same_failure(check, &c, &class, &sig, wd)
      };
      let small = ddmin(b, &mut budget, &mut pred);
      w["cbor"] = Value::String(hex(&small));
    }
  }
  let mut out = v.clone();
  out.world = w;
  out
}

/// Label a stack overflow / abort with the recurring library functions of its innermost frames.
/// gdb labels; it never decides.
pub fn gdb_where(check: &str, world: &Value) -> String {
  let exe = std::env::current_exe().expect("current_exe");
  let wf = tmp_dir().join(format!("gdb-world-{}.json", std::process::id()));
  if std::fs::write(&wf, world.to_string()).is_err() {
    return "unknown".into();
  }
  let out = Command::new("gdb")
    .arg("-batch")
    .arg("-ex")
    .arg("run")
    .arg("-ex")
    .arg("bt 120")
    .arg("--args")
    .arg(&exe)
    .arg("exec")
    .arg(check)
    .arg(&wf)
    .arg("60")
    .stdin(std::process::Stdio::null())
    .stderr(std::process::Stdio::null())
    .output();
  let _ = std::fs::remove_file(&wf);
  let text = match out {
    Ok(o) => String::from_utf8_lossy(&o.stdout).to_string(),
    Err(_) => return "unknown".into(),
  };
  let mut counts: BTreeMap<String, u32> = BTreeMap::new();
  for line in text.lines() {
    let t = line.trim_start();
    if !t.starts_with('#') {
      continue;
    }
    // "#12 0x... in cddl::validator::is_ident_string_data_type (cddl=..., ident=...) at src/..."
    if let Some(pos) = t.find(" in ") {
      let rest = &t[pos + 4..];
      let name = rest.split(" (").next().unwrap_or("");
      if name.contains("cddl::") {
        // drop generic arguments and closure suffixes: keep the path of the function
        let mut n = name.to_string();
        if let Some(i) = n.find("::{closure") {
          n.truncate(i);
        }
        let n = strip_generics(&n);
        *counts.entry(n).or_default() += 1;
      }
    }
  }
  let mut v: Vec<(String, u32)> = counts.into_iter().filter(|(_, c)| *c >= 3).collect();
  v.sort_by(|a, b| b.1.cmp(&a.1).then(a.0.cmp(&b.0)));
  let names: Vec<String> = v.into_iter().take(3).map(|(n, _)| n.rsplit("::").next().unwrap_or("").to_string()).collect();
  if names.is_empty() {
    "unknown".into()
  } else {
    let mut names = names;
    names.sort();
    names.join("+")
  }
}

fn strip_generics(s: &str) -> String {
  let mut out = String::new();
  let mut depth = 0;
  for c in s.chars() {
    match c {
      '<' => depth += 1,
      '>' => depth -= 1,
      _ if depth == 0 => out.push(c),
      _ => {}
    }
  }
  out
}

// ------------------------------------------------------------------------------------------------
// predicates of known findings, evaluated on the minimised world (1-minimal in schema lines)

struct RuleLine {
  name: String,
  /// identifiers that occur outside any [ ] { } ( # ) container on the right-hand side, i.e. positions
  /// that are resolved without consuming data: plain aliases, operands of operators, `~x`, `&x`,
  /// generic arguments
  unguarded: Vec<String>,
  /// the subset of `unguarded` that is reached through something other than a plain alias or a type
  /// choice: an operand of a control or range operator, an unwrap (~), a generic application or argument
  mediated: Vec<String>,
  /// generic rule names applied inside their own argument list, e.g. g<g<int>>
  self_applied: bool,
}

/// Does this physical line start a rule: `name [<params>] (= | /= | //=) ...` at its beginning?
fn starts_rule(line: &str) -> bool {
  let t = line.trim_start();
  let mut it = t.char_indices().peekable();
  let mut end = 0;
  match it.peek() {
    Some((_, c)) if c.is_ascii_alphabetic() || "@_$".contains(*c) => {}
    _ => return false,
  }
  for (i, c) in it {
    if c.is_ascii_alphanumeric() || "@_$-.".contains(c) {
      end = i + c.len_utf8();
    } else {
      break;
    }
  }
  let mut rest = t[end..].trim_start();
  if rest.starts_with('<') {
    match rest.find('>') {
      Some(p) => rest = rest[p + 1..].trim_start(),
      None => return false,
    }
  }
  (rest.starts_with('=') && !rest.starts_with("=>")) || rest.starts_with("/=") || rest.starts_with("//=")
}

fn parse_rules(schema: &str) -> Vec<RuleLine> {
  let mut out = Vec::new();
  // logical rules: a physical line that does not start a rule continues the previous one (rule bodies may
  // span lines; a literal may even contain a line break)
  let mut logical: Vec<String> = Vec::new();
  for line in schema.lines() {
    // a ';' starts a comment only outside text ("..") and byte-string ('..') literals
    let mut cut = line.len();
    let mut quote: Option<char> = None;
    let mut prev = ' ';
    for (i, c) in line.char_indices() {
      match quote {
        Some(q) => {
          if c == q && prev != '\\' {
            quote = None;
          }
        }
        None => {
          if c == '"' || c == '\'' {
            quote = Some(c);
          } else if c == ';' {
            cut = i;
            break;
          }
        }
      }
      prev = c;
    }
    let line = &line[..cut];
    if starts_rule(line) || logical.is_empty() {
      logical.push(line.to_string());
    } else {
      let last = logical.last_mut().unwrap();
      last.push(' ');
      last.push_str(line);
    }
  }
  for line in logical.iter() {
    let line = line.as_str();
    let (lhs, rhs) = if let Some(p) = line.find("//=") {
      (&line[..p], &line[p + 3..])
    } else if let Some(p) = line.find("/=") {
      (&line[..p], &line[p + 2..])
    } else if let Some(p) = line.find('=') {
      (&line[..p], &line[p + 1..])
    } else {
      continue;
    };
    let name = lhs.trim().split('<').next().unwrap_or("").trim().to_string();
    if name.is_empty() {
      continue;
    }
    let mut unguarded = Vec::new();
    let mut mediated: Vec<String> = Vec::new();
    let mut depth = 0i32;
    let mut in_str = false;
    let mut quote_char = '"';
    let mut cur = String::new();
    let mut self_applied = false;
    let mut generic_stack: Vec<String> = Vec::new();
    let mut last_ident = String::new();
    let mut paren_stack: Vec<bool> = Vec::new();
    let mut containers: Vec<char> = Vec::new();
    let cs: Vec<char> = rhs.chars().collect();
    let mut i = 0;
    while i <= cs.len() {
      let c = if i < cs.len() { cs[i] } else { ' ' };
      if in_str {
        if c == quote_char && (i == 0 || cs[i - 1] != '\\') {
          in_str = false;
        }
        i += 1;
        continue;
      }
      // ".." / "..." is the range operator, not part of an identifier
      let range_dot = c == '.' && ((i + 1 < cs.len() && cs[i + 1] == '.') || (i > 0 && cs[i - 1] == '.'));
      let is_id = !range_dot && (c.is_ascii_alphanumeric() || "@_$-.".contains(c));
      if is_id && !(cur.is_empty() && (c == '.' || c == '-' || c.is_ascii_digit())) {
        cur.push(c);
      } else {
        if !cur.is_empty() {
          let id = cur.trim_end_matches(['.', '-']).to_string();
          // a control operator (".size") is written with a leading dot and never collected
          // a bare name as an entry of a map ({ g } / { g<T> } / { ? g, k: v }) includes a group: it consumes no
          // member by itself, so it is as unguarded as a plain alias
          let bare_map_entry = !id.is_empty() && containers.last() == Some(&'{') && paren_stack.is_empty() && {
            let end = i;
            let start = end.saturating_sub(cur.chars().count());
            let before: String = cs[..start].iter().collect::<String>().trim_end().to_string();
            let mut after: String = cs[end.min(cs.len())..].iter().collect::<String>().trim_start().to_string();
            if after.starts_with('<') {
              if let Some(p) = after.find('>') {
                after = after[p + 1..].trim_start().to_string();
              }
            }
            let key_before = before.ends_with(':') || before.ends_with("=>") || before.ends_with('.') || before.ends_with('/') && !before.ends_with("//");
            let key_after = after.starts_with(':') || after.starts_with("=>") || after.starts_with('^') || after.starts_with('.') || after.starts_with('/') && !after.starts_with("//");
            !key_before && !key_after
          };
          if bare_map_entry {
            unguarded.push(id.clone());
            mediated.push(id.clone());
          }
          if depth > 0 && !id.is_empty() {
            // inside an array / map the reference is reached only with data in hand, but the *target of a control
            // operator* (`[ t .size 3 ]`, `{ a: t .size 3 }`, `{ t .hex2 }`) and an *unwrapped name* (`[ ~t ]`) are
            // still resolved by the alias-chasing helpers, which follow t = t forever whatever the data is
            let end = i;
            let start = end.saturating_sub(cur.chars().count());
            let before: String = cs[..start].iter().collect::<String>().trim_end().to_string();
            let after: String = cs[end.min(cs.len())..].iter().collect::<String>().trim_start().to_string();
            let ctl_after = after.starts_with('.') && !after.starts_with("..");
            if ctl_after || before.ends_with('~') {
              mediated.push(id.clone());
            }
          }
          if depth == 0 && !id.is_empty() {
            unguarded.push(id.clone());
            // what surrounds the reference?
            let end = i; // one past the identifier (cur ended at i)
            let start = end.saturating_sub(cur.chars().count());
            let before: String = cs[..start].iter().collect::<String>().trim_end().to_string();
            let after: String = cs[end.min(cs.len())..].iter().collect::<String>().trim_start().to_string();
            // `&x` / `&(x)` (choice from a group) and `~x` resolve the name without consuming data
            let stripped = before.trim_end_matches(|ch: char| ch == '(' || ch.is_whitespace());
            let op_before = before.ends_with('~')
              || stripped.ends_with('&')
              || stripped.ends_with('~')
              || before.ends_with("..")
              || {
                // a control operator name right before: ".size", ".join", ...
                let t = before.trim_end_matches(|ch: char| ch.is_ascii_alphanumeric() || ch == '-');
                t.len() < before.len() && t.ends_with('.') && !t.ends_with("..")
              };
            let op_after = after.starts_with('.') || after.starts_with('<');
            if op_before || op_after || !generic_stack.is_empty() {
              mediated.push(id.clone());
            }
          }
          last_ident = id;
          cur.clear();
        }
        match c {
          '"' | '\'' => {
            in_str = true;
            quote_char = c;
          }
          '[' | '{' => {
            depth += 1;
            containers.push(c);
          }
          ']' | '}' => {
            depth -= 1;
            containers.pop();
          }
          // a parenthesis guards only when it is a group with member keys (it then consumes a map entry);
          // a parenthesised type is mere grouping
          '(' => {
            let mut d = 1;
            let mut keyed = false;
            let mut j = i + 1;
            while j < cs.len() && d > 0 {
              match cs[j] {
                '(' | '[' | '{' => d += 1,
                ')' | ']' | '}' => d -= 1,
                ':' if d == 1 => keyed = true,
                '=' if d == 1 && j + 1 < cs.len() && cs[j + 1] == '>' => keyed = true,
                _ => {}
              }
              j += 1;
            }
            // `&( k => v, ... )` enumerates the *values* of the inline group as type choices: the key guards nothing
            let choice_from_group = cs[..i].iter().rev().find(|ch| !ch.is_whitespace()) == Some(&'&');
            let keyed = keyed && !choice_from_group;
            paren_stack.push(keyed);
            if keyed {
              depth += 1;
            }
          }
          ')' => {
            if paren_stack.pop().unwrap_or(false) {
              depth -= 1;
            }
          }
          '<' => {
            if generic_stack.contains(&last_ident) {
              self_applied = true;
            }
            generic_stack.push(last_ident.clone());
          }
          '>' => {
            generic_stack.pop();
          }
          '.' => {
            // skip the control operator name
            let mut j = i + 1;
            while j < cs.len() && (cs[j].is_ascii_alphanumeric() || cs[j] == '-') {
              j += 1;
            }
            if j > i + 1 && !(j < cs.len() && cs[i + 1] == '.') {
              i = j;
              continue;
            }
          }
          _ => {}
        }
      }
      i += 1;
    }
    out.push(RuleLine { name, unguarded, mediated, self_applied });
  }
  out
}

/// A cycle of rule references none of which sits inside a container: following it consumes no data.
pub fn unguarded_rule_cycle(schema: &str) -> bool {
  let rules = parse_rules(schema);
  let names: Vec<&str> = rules.iter().map(|r| r.name.as_str()).collect();
  // edges
  let mut edges: BTreeMap<&str, Vec<&str>> = BTreeMap::new();
  for r in &rules {
    for u in &r.unguarded {
      if names.contains(&u.as_str()) {
        edges.entry(r.name.as_str()).or_default().push(u.as_str());
      }
    }
  }
  fn reach<'a>(edges: &BTreeMap<&'a str, Vec<&'a str>>, from: &'a str, target: &'a str, seen: &mut Vec<&'a str>) -> bool {
    if from == target {
      return true;
    }
    for n in edges.get(from).cloned().unwrap_or_default() {
      if n == target {
        return true;
      }
      if !seen.contains(&n) {
        seen.push(n);
        if reach(edges, n, target, seen) {
          return true;
        }
      }
    }
    false
  }
  // a cycle that contains at least one edge through an operator, an unwrap or a generic application /
  // argument: plain alias cycles (a = b, b = a; r = r / int) are caught by the validators' own guard today
  // and are NOT part of the known finding
  // nodes that lie on a cycle
  let on_cycle: Vec<&str> = names
    .iter()
    .cloned()
    .filter(|n| {
      let mut seen = Vec::new();
      edges.get(n).cloned().unwrap_or_default().iter().any(|k| reach(&edges, k, n, &mut seen))
    })
    .collect();
  for r in &rules {
    for m in &r.mediated {
      if names.contains(&m.as_str()) {
        // the mediated reference leads into a cycle (possibly the one it is part of): ~v with v = v;
        // b .size 3 with b = a, a = b .size 3
        for c in &on_cycle {
          let mut seen = Vec::new();
          if reach(&edges, m.as_str(), c, &mut seen) {
            return true;
          }
        }
      }
    }
  }
  false
}

pub fn generic_self_application(schema: &str) -> bool {
  parse_rules(schema).iter().any(|r| r.self_applied)
}

/// A generic rule instantiated with an argument that (directly, or through the rules it names)
/// instantiates the same generic rule again: g<g<int>>, or p = g<q>, q = g<~r>.
pub fn generic_reentrancy(schema: &str) -> bool {
  if generic_self_application(schema) {
    return true;
  }
  // generic rule names
  let mut generics: Vec<String> = Vec::new();
  let mut bodies: BTreeMap<String, String> = BTreeMap::new();
  for line in schema.lines() {
    let line = line.split(';').next().unwrap_or("");
    if let Some(p) = line.find('=') {
      let lhs = line[..p].trim_end_matches('/').trim();
      let name = lhs.split('<').next().unwrap_or("").trim().to_string();
      if lhs.contains('<') && !name.is_empty() {
        generics.push(name.clone());
      }
      if !name.is_empty() {
        bodies.entry(name).or_default().push_str(&line[p + 1..]);
      }
    }
  }
  // does `text` apply generic g (g<...>) anywhere, following rule names up to a small depth?
  fn applies(bodies: &BTreeMap<String, String>, text: &str, g: &str, depth: usize) -> bool {
    let pat = format!("{}<", g);
    if text.contains(&pat) {
      return true;
    }
    if depth == 0 {
      return false;
    }
    for (name, body) in bodies {
      if name != g && contains_ident(text, name) && applies(bodies, body, g, depth - 1) {
        return true;
      }
    }
    false
  }
  for g in &generics {
    let pat = format!("{}<", g);
    for body in bodies.values() {
      let mut from = 0;
      while let Some(p) = body[from..].find(&pat) {
        let start = from + p + pat.len();
        // argument list up to the matching '>'
        let mut depth = 1;
        let mut end = start;
        for (i, c) in body[start..].char_indices() {
          match c {
            '<' => depth += 1,
            '>' => {
              depth -= 1;
              if depth == 0 {
                end = start + i;
                break;
              }
            }
            _ => {}
          }
        }
        if end > start && applies(&bodies, &body[start..end], g, 4) {
          return true;
        }
        from = start;
      }
    }
  }
  false
}

fn contains_ident(text: &str, name: &str) -> bool {
  let is_id = |c: char| c.is_ascii_alphanumeric() || "@_$-.".contains(c);
  let mut from = 0;
  while let Some(p) = text[from..].find(name) {
    let a = from + p;
    let b = a + name.len();
    let before_ok = a == 0 || !is_id(text[..a].chars().last().unwrap());
    let after_ok = b >= text.len() || !is_id(text[b..].chars().next().unwrap());
    if before_ok && after_ok {
      return true;
    }
    from = a + 1;
    while !text.is_char_boundary(from) {
      from += 1;
    }
  }
  false
}

pub fn schema_of(v: &Violation) -> String {
  v.world["schema"]["text"].as_str().unwrap_or("").to_string()
}

/// Named predicates referenced from known_findings.json.
pub fn predicate(name: &str, v: &Violation) -> bool {
  let schema = schema_of(v);
  match name {
    "unguarded_rule_cycle" => unguarded_rule_cycle(&schema),
    "generic_self_application" => generic_self_application(&schema),
    "generic_reentrancy" => generic_reentrancy(&schema),
    "cycle_or_self_application" => unguarded_rule_cycle(&schema) || generic_self_application(&schema),
    "uri_prelude_panic_in_uriparse" => schema.contains("uri") && v.detail.contains("uriparse-"),
    "abnf_control" => schema.contains(".abnf"),
    "abnf_huge_repetition" => schema.contains(".abnf") && {
      // a repetition count of four or more digits inside the schema text
      let b = schema.as_bytes();
      let mut run = 0;
      let mut found = false;
      for c in b {
        if c.is_ascii_digit() {
          run += 1;
          if run >= 4 {
            found = true;
          }
        } else {
          run = 0;
        }
      }
      found
    },
    "leftover_entry_state_debug_assert" => v.detail.contains("assertion failed: self.object_value.is_none()") || v.detail.contains("assertion failed: self.map_entry_candidates.is_none()"),
    "time_prelude" => schema.contains("time"),
    "always" => true,
    _ => false,
  }
}

/// Cheap grouping key computed on the raw (unminimised) world: violations are minimised per group
/// (the smallest worlds of each), not one by one. The key contains the value of every known-finding
/// predicate, so a crash on a world where no known predicate holds is never grouped with one where it does.
pub fn pre_key(v: &Violation) -> String {
  let schema = schema_of(v);
  let sig = if v.class == "panic" { v.signature.splitn(2, ':').nth(1).unwrap_or("").to_string() } else { String::new() };
  format!(
    "{}|{}|cyc={} gen={} abnf={} uri={} abnfrep={}",
    v.class,
    sig,
    unguarded_rule_cycle(&schema) as u8,
    generic_reentrancy(&schema) as u8,
    schema.contains(".abnf") as u8,
    (schema.contains("uri") && v.detail.contains("uriparse-")) as u8,
    predicate("abnf_huge_repetition", v) as u8
  )
}

/// Does the raw world already satisfy one of the known-finding predicates?
pub fn raw_predicate_holds(v: &Violation) -> bool {
  let schema = schema_of(v);
  unguarded_rule_cycle(&schema) || generic_reentrancy(&schema) || predicate("abnf_huge_repetition", v) || predicate("leftover_entry_state_debug_assert", v)
}

pub fn world_size(v: &Violation) -> usize {
  World::from_json(&v.world).size()
}

/// Every document obtained from `v` by removing one array element or one object member, at any depth.
pub fn json_shrinks(v: &serde_json::Value) -> Vec<serde_json::Value> {
  let mut out = Vec::new();
  match v {
    serde_json::Value::Array(a) => {
      for i in 0..a.len() {
        let mut b = a.clone();
        b.remove(i);
        out.push(serde_json::Value::Array(b));
      }
      for (i, e) in a.iter().enumerate() {
        for s in json_shrinks(e) {
          let mut b = a.clone();
          b[i] = s;
          out.push(serde_json::Value::Array(b));
        }
      }
    }
    serde_json::Value::Object(o) => {
      for k in o.keys() {
        let mut b = o.clone();
        b.remove(k);
        out.push(serde_json::Value::Object(b));
      }
      for (k, e) in o.iter() {
        for s in json_shrinks(e) {
          let mut b = o.clone();
          b.insert(k.clone(), s);
          out.push(serde_json::Value::Object(b));
        }
      }
    }
    _ => {}
  }
  out
}
