//! Allocator seam: the simulator's global allocator. It counts calls / bytes / peak and enforces a
//! per-run budget: a single request above `single_max`, or live bytes above `live_max`, is recorded,
//! its last words are written with raw write(2) to fd 2, and the request is refused (null), which the
//! infallible allocation API of std turns into `handle_alloc_error` -> abort, exactly what a machine
//! without that much memory would do. Code that uses the fallible API (`try_reserve`) sees an error.

use std::alloc::{GlobalAlloc, Layout, System};
use std::sync::atomic::{AtomicBool, AtomicU64, AtomicUsize, Ordering::Relaxed};

pub struct SimAlloc;

static CALLS: AtomicU64 = AtomicU64::new(0);
static LIVE: AtomicUsize = AtomicUsize::new(0);
static PEAK: AtomicUsize = AtomicUsize::new(0);
static MAX_REQ: AtomicUsize = AtomicUsize::new(0);
static SINGLE_MAX: AtomicUsize = AtomicUsize::new(usize::MAX);
static LIVE_MAX: AtomicUsize = AtomicUsize::new(usize::MAX);
static REFUSED: AtomicU64 = AtomicU64::new(0);
static ENFORCE: AtomicBool = AtomicBool::new(false);

// Only the thread that executes library code is counted and budgeted (the printer thread of a child
// would otherwise perturb the exactly-repeatable call counts). Const-initialised, no destructor:
// safe to touch from inside the allocator.
thread_local! {
  static SUBJECT: std::cell::Cell<bool> = const { std::cell::Cell::new(false) };
}

/// Mark the calling thread as the one whose allocations are counted and budgeted.
pub fn set_subject(on: bool) {
  SUBJECT.with(|s| s.set(on));
}

#[inline]
fn is_subject() -> bool {
  SUBJECT.try_with(|s| s.get()).unwrap_or(false)
}

fn write_num(buf: &mut [u8], mut pos: usize, mut n: usize) -> usize {
  let mut tmp = [0u8; 24];
  let mut k = 0;
  if n == 0 {
    tmp[0] = b'0';
    k = 1;
  }
  while n > 0 {
    tmp[k] = b'0' + (n % 10) as u8;
    n /= 10;
    k += 1;
  }
  while k > 0 {
    k -= 1;
    buf[pos] = tmp[k];
    pos += 1;
  }
  pos
}

fn last_words(kind: &[u8], size: usize, live: usize) {
  let mut buf = [0u8; 160];
  let mut pos = 0;
  for b in b"SIM-ALLOC-REFUSED kind=" {
    buf[pos] = *b;
    pos += 1;
  }
  for b in kind {
    buf[pos] = *b;
    pos += 1;
  }
  for b in b" request=" {
    buf[pos] = *b;
    pos += 1;
  }
  pos = write_num(&mut buf, pos, size);
  for b in b" live=" {
    buf[pos] = *b;
    pos += 1;
  }
  pos = write_num(&mut buf, pos, live);
  buf[pos] = b'\n';
  pos += 1;
  unsafe {
    libc::write(2, buf.as_ptr() as *const libc::c_void, pos);
  }
}

#[inline]
fn admit(size: usize) -> bool {
  let subject = is_subject();
  if subject {
    CALLS.fetch_add(1, Relaxed);
  }
  if subject && ENFORCE.load(Relaxed) {
    if size > SINGLE_MAX.load(Relaxed) {
      REFUSED.fetch_add(1, Relaxed);
      last_words(b"single", size, LIVE.load(Relaxed));
      return false;
    }
    if LIVE.load(Relaxed).saturating_add(size) > LIVE_MAX.load(Relaxed) {
      REFUSED.fetch_add(1, Relaxed);
      last_words(b"live", size, LIVE.load(Relaxed));
      return false;
    }
  }
  let live = LIVE.fetch_add(size, Relaxed) + size;
  PEAK.fetch_max(live, Relaxed);
  MAX_REQ.fetch_max(size, Relaxed);
  true
}

unsafe impl GlobalAlloc for SimAlloc {
  unsafe fn alloc(&self, l: Layout) -> *mut u8 {
    if !admit(l.size()) {
      return std::ptr::null_mut();
    }
    let p = System.alloc(l);
    if p.is_null() {
      LIVE.fetch_sub(l.size(), Relaxed);
    }
    p
  }
  unsafe fn alloc_zeroed(&self, l: Layout) -> *mut u8 {
    if !admit(l.size()) {
      return std::ptr::null_mut();
    }
    let p = System.alloc_zeroed(l);
    if p.is_null() {
      LIVE.fetch_sub(l.size(), Relaxed);
    }
    p
  }
  unsafe fn dealloc(&self, p: *mut u8, l: Layout) {
    LIVE.fetch_sub(l.size(), Relaxed);
    System.dealloc(p, l)
  }
  unsafe fn realloc(&self, p: *mut u8, l: Layout, new: usize) -> *mut u8 {
    if new > l.size() {
      if is_subject() && ENFORCE.load(Relaxed) && new > SINGLE_MAX.load(Relaxed) {
        CALLS.fetch_add(1, Relaxed);
        REFUSED.fetch_add(1, Relaxed);
        last_words(b"single-realloc", new, LIVE.load(Relaxed));
        return std::ptr::null_mut();
      }
      // account the growth against the live budget; record the whole block as the request size
      if !admit(new - l.size()) {
        return std::ptr::null_mut();
      }
      MAX_REQ.fetch_max(new, Relaxed);
      let q = System.realloc(p, l, new);
      if q.is_null() {
        LIVE.fetch_sub(new - l.size(), Relaxed);
      }
      q
    } else {
      if is_subject() {
        CALLS.fetch_add(1, Relaxed);
      }
      LIVE.fetch_sub(l.size() - new, Relaxed);
      System.realloc(p, l, new)
    }
  }
}

/// Start of a run: reset the per-run counters and arm the budget.
pub fn arm(single_max: usize, live_max: usize) {
  CALLS.store(0, Relaxed);
  MAX_REQ.store(0, Relaxed);
  PEAK.store(LIVE.load(Relaxed), Relaxed);
  SINGLE_MAX.store(single_max, Relaxed);
  // the budget is on top of what is already live (harness data structures)
  LIVE_MAX.store(LIVE.load(Relaxed).saturating_add(live_max), Relaxed);
  ENFORCE.store(true, Relaxed);
}

pub fn is_armed() -> bool {
  ENFORCE.load(Relaxed)
}

/// Re-enable enforcement with the limits of the last `arm` (after a caught panic or a trace line).
pub fn rearm() {
  ENFORCE.store(true, Relaxed);
}

pub fn disarm() {
  ENFORCE.store(false, Relaxed);
}

pub fn calls() -> u64 {
  CALLS.load(Relaxed)
}
pub fn reset_calls() {
  CALLS.store(0, Relaxed);
}
pub fn max_request() -> usize {
  MAX_REQ.load(Relaxed)
}
pub fn refused() -> u64 {
  REFUSED.load(Relaxed)
}
