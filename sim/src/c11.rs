//! C11 — the CBOR decoder against the executable RFC 8949 reference model, with the stored bytes
//! suffering EOF at every offset, bit flips, overwrites, splices, hostile length fields, reserved
//! additional information and stray breaks; plus exhaustive enumeration of all short byte strings.

use crate::cborref::*;
use crate::faults::{self, Fault};
use crate::kernel::*;
use crate::rng::{fnv_add, Rng};
use cddl::validator::cbor_value::decode_cbor;
use serde_json::{json, Value};

pub struct C11;
pub struct C11X;

pub static C11_CHECK: C11 = C11;
pub static C11X_CHECK: C11X = C11X;

fn viol(class: &str, signature: String, bytes: &[u8], detail: String) -> Violation {
  Violation {
    class: class.into(),
    signature,
    world: json!({"bytes": hex(bytes)}),
    detail,
  }
}

fn mt_name(b: &[u8]) -> &'static str {
  match b.first().map(|x| x >> 5) {
    Some(0) => "uint",
    Some(1) => "nint",
    Some(2) => "bstr",
    Some(3) => "tstr",
    Some(4) => "array",
    Some(5) => "map",
    Some(6) => "tag",
    Some(_) => "simple-float",
    None => "empty",
  }
}

/// First place where two model values differ, as a short kind description.
fn diff_kind(a: &MV, b: &MV) -> String {
  fn kind(v: &MV) -> &'static str {
    match v {
      MV::UInt(_) => "uint",
      MV::NInt(_) => "nint",
      MV::Bytes(_) => "bstr",
      MV::Text(_) => "tstr",
      MV::Array(_) => "array",
      MV::Map(_) => "map",
      MV::Tag(..) => "tag",
      MV::Simple(_) => "simple",
      MV::Float(_) => "float",
    }
  }
  match (a, b) {
    (MV::Array(x), MV::Array(y)) => {
      if x.len() != y.len() {
        return "array-length".into();
      }
      for (p, q) in x.iter().zip(y) {
        if p != q {
          return diff_kind(p, q);
        }
      }
      "array".into()
    }
    (MV::Map(x), MV::Map(y)) => {
      if x.len() != y.len() {
        return "map-length".into();
      }
      for ((k1, v1), (k2, v2)) in x.iter().zip(y) {
        if k1 != k2 {
          return diff_kind(k1, k2);
        }
        if v1 != v2 {
          return diff_kind(v1, v2);
        }
      }
      "map".into()
    }
    (MV::Tag(t1, x), MV::Tag(t2, y)) => {
      if t1 != t2 {
        "tag-number".into()
      } else {
        diff_kind(x, y)
      }
    }
    (MV::Simple(x), MV::Simple(y)) => format!("simple({})-as-simple({})", y, x),
    _ if kind(a) == kind(b) => kind(a).into(),
    _ => format!("{}-as-{}", kind(b), kind(a)),
  }
}

/// The comparison at the heart of C11: decoder vs reference model on one stored byte string.
/// `known` collects violations that are exactly the listed representation finding.
pub fn compare(bytes: &[u8], out: &mut Vec<Violation>) {
  trace(&hex(bytes));
  let got = guarded(|| decode_cbor(bytes));
  let exp = ref_decode(bytes);
  match (got, exp) {
    (Err(p), _) => out.push(viol(
      "panic",
      panic_site(&p),
      bytes,
      format!("decode_cbor panicked: {} at {}", p.msg, p.location),
    )),
    (Ok(Ok(v)), Ok((m, _))) => {
      let g = to_model(&v);
      if g != m {
        let (c, any) = collapse_undefined(&m);
        if any && g == c {
          out.push(viol(
            "wrong-value",
            "undefined-decodes-as-null".into(),
            bytes,
            format!("expected {} got {}", show(&m), show(&g)),
          ));
        } else {
          out.push(viol(
            "wrong-value",
            format!("value:{}", diff_kind(&g, &m)),
            bytes,
            format!("expected {} got {}", show(&m), show(&g)),
          ));
        }
      }
    }
    (Ok(Err(_)), Err(_)) => {}
    (Ok(Ok(v)), Err(e)) => out.push(viol(
      "accepted-ill-formed",
      format!("accepts:{:?}:{}", e, mt_name(bytes)),
      bytes,
      format!("not a well-formed item ({:?}) but decoded to {}", e, show(&to_model(&v))),
    )),
    (Ok(Err(e)), Ok((m, n))) => out.push(viol(
      "rejected-well-formed",
      format!("rejects:{}", mt_name(bytes)),
      bytes,
      format!("well-formed item of {} bytes with value {} rejected: {}", n, show(&m), e),
    )),
  }
}

fn dedup(vs: &mut Vec<Violation>) {
  let mut seen: Vec<(String, String)> = Vec::new();
  vs.retain(|v| {
    let k = (v.class.clone(), v.signature.clone());
    if seen.contains(&k) {
      false
    } else {
      seen.push(k);
      true
    }
  });
}

impl Check for C11 {
  fn name(&self) -> &'static str {
    "c11"
  }

  fn default_budget(&self) -> (usize, usize) {
    (4 << 20, 256 << 20)
  }

  fn run(&self, seed: u64, idx: u64, _tier: Tier) -> RunOut {
    let mut out = RunOut::default();
    let mut rw = Rng::stream(seed, "c11", idx, "workload");
    let mut rf = Rng::stream(seed, "c11", idx, "faults");
    let mut rk = Rng::stream(seed, "c11", idx, "knobs");
    let cfg = EncCfg::swarm(&mut rk);
    // swarm: which fault families are enabled in this run
    let f_trunc = rk.chance(9, 10);
    let f_flip = rk.chance(3, 4);
    let f_cbor = rk.chance(3, 4);
    let f_junk = rk.chance(3, 4);
    let n_faults = rk.range(4, 24);

    let mut enc = Vec::new();
    let v = gen_item(&mut enc, &mut rw, &cfg, 0);
    let mut donor = Vec::new();
    let _ = gen_item(&mut donor, &mut rw, &cfg, 0);
    let mut vs = Vec::new();
    let mut fp = fnv_add(crate::rng::fnv(b"c11"), &enc);

    // 0. the model must agree with the writer (otherwise the harness is wrong, not the decoder)
    match ref_decode(&enc) {
      Ok((m, n)) if m == v && n == enc.len() => {}
      other => {
        out.probe("MODEL_WRITER_DISAGREE");
        vs.push(viol(
          "harness",
          "model-writer-disagree".into(),
          &enc,
          format!("writer value {} model {:?}", show(&v), other),
        ));
      }
    }

    // 1. round trip
    compare(&enc, &mut vs);
    out.ops += 1;
    if let Ok(Ok(got)) = guarded(|| decode_cbor(&enc)) {
      let g = to_model(&got);
      let (c, _) = collapse_undefined(&v);
      if g != v && g != c {
        vs.push(viol(
          "wrong-value",
          format!("roundtrip:{}", diff_kind(&g, &v)),
          &enc,
          format!("wrote {} read {}", show(&v), show(&g)),
        ));
      }
    }

    // 2. trailing bytes after the item are not the decoder's business
    if f_junk {
      let mut with_junk = enc.clone();
      let n = rf.range(1, 6);
      for _ in 0..n {
        with_junk.push(if rf.chance(1, 3) { 0xff } else { rf.byte() });
      }
      out.fault("trailing_bytes");
      compare(&with_junk, &mut vs);
      out.ops += 1;
      fp = fnv_add(fp, &with_junk[enc.len()..]);
    }

    // 3. crash-point enumeration: EOF at every offset of the item
    if f_trunc {
      if enc.len() <= 1024 {
        for k in 0..enc.len() {
          compare(&enc[..k], &mut vs);
        }
        out.ops += enc.len() as u64;
        out.fault_n("eof_at_offset", enc.len() as u64);
      } else {
        // long items: every offset costs |item|^2; EOF at the first and last 64 offsets, at every offset
        // within 4 bytes of a multiple of 4096 (and of 256 for items under 8 KiB), and at 64 sampled offsets
        let n = enc.len();
        let mut ks: Vec<usize> = (0..64).chain(n - 64..n).collect();
        let step = if n < 8192 { 256 } else { 4096 };
        let mut m = step;
        while m < n {
          for d in 0..8 {
            if m + d >= 4 && m + d - 4 < n {
              ks.push(m + d - 4);
            }
          }
          m += step;
        }
        for _ in 0..64 {
          ks.push(rf.below(n));
        }
        ks.sort();
        ks.dedup();
        for k in &ks {
          compare(&enc[..*k], &mut vs);
        }
        out.ops += ks.len() as u64;
        out.fault_n("eof_at_offset", ks.len() as u64);
        out.probe("long_item_sampled_truncation");
      }
    }

    // 4. every single-bit flip of small items
    if f_flip && enc.len() <= 32 {
      for p in 0..enc.len() {
        for bit in 0..8 {
          let b = Fault::BitFlip(p, bit).apply(&enc);
          compare(&b, &mut vs);
        }
      }
      out.ops += 8 * enc.len() as u64;
      out.fault_n("bitflip", 8 * enc.len() as u64);
      out.probe("all_bitflips");
    }

    // 5. sampled medium corruption, one to three faults stacked
    let heads = faults::cbor_heads(&enc);
    for _ in 0..n_faults {
      let mut b = enc.clone();
      let stack = if rf.chance(1, 4) { rf.range(2, 3) } else { 1 };
      for s in 0..stack {
        let f = if f_cbor && s == 0 {
          faults::random_cbor_fault(&mut rf, &b, &heads, &donor)
        } else {
          faults::random_byte_fault(&mut rf, &b, &donor)
        };
        out.fault(f.kind());
        b = f.apply(&b);
      }
      fp = fnv_add(fp, &b);
      compare(&b, &mut vs);
      out.ops += 1;
      if ref_decode(&b).is_ok() {
        out.probe("corrupted_still_well_formed");
      }
    }

    // probes: did the workload reach the interesting encodings?
    if enc.contains(&0x5f) || enc.contains(&0x7f) {
      out.probe("maybe_indefinite_string");
    }
    if let MV::Array(_) | MV::Map(_) | MV::Tag(..) = v {
      out.probe("container_root");
    }
    if max_depth(&v) >= 3 {
      out.probe("depth_ge_3");
    }
    dedup(&mut vs);
    out.violations = vs;
    out.fp = fp;
    out.nontrivial = enc.len() >= 2;
    out.sample = Some(json!({"item": show(&v), "encoding": hex(&enc), "faults_applied": n_faults, "truncations": if f_trunc { enc.len().min(2000) } else { 0 }}));
    out
  }

  fn exec_world(&self, world: &Value) -> Vec<Violation> {
    let bytes = unhex(world["bytes"].as_str().unwrap_or(""));
    let mut vs = Vec::new();
    compare(&bytes, &mut vs);
    vs
  }
}

// ------------------------------------------------------------------------------------------------
// exhaustive small scope

/// One representative initial byte per (major type, additional-information class).
pub fn representative_initial_bytes() -> Vec<u8> {
  let mut v = Vec::new();
  for mt in 0..8u8 {
    for ai in [0u8, 1, 23, 24, 25, 26, 27, 28, 30, 31] {
      v.push(mt << 5 | ai);
    }
  }
  v
}

const INTERESTING: &[u8] = &[
  0x00, 0x01, 0x17, 0x18, 0x19, 0x1a, 0x1b, 0x1c, 0x1f, 0x20, 0x37, 0x38, 0x3b, 0x40, 0x41, 0x42, 0x58, 0x5f, 0x60, 0x61,
  0x62, 0x78, 0x7f, 0x80, 0x81, 0x82, 0x98, 0x9f, 0xa0, 0xa1, 0xbf, 0xc0, 0xc2, 0xd8, 0xe0, 0xf4, 0xf6, 0xf7, 0xf8, 0xf9,
  0xfa, 0xfb, 0xfc, 0xff, 0x7e, 0xc3, 0xa9, 0x10,
];

pub const X_LEN3_BASE: u64 = 1;
pub const X_LEN4_BASE: u64 = 257;

impl C11X {
  pub fn total_runs(tier: Tier) -> u64 {
    match tier {
      Tier::Quick => 257,
      Tier::Thorough => 257 + representative_initial_bytes().len() as u64 * 16,
    }
  }
}

impl Check for C11X {
  fn name(&self) -> &'static str {
    "c11x"
  }
  fn default_budget(&self) -> (usize, usize) {
    (4 << 20, 256 << 20)
  }

  /// idx 0: all strings of length 0, 1, 2. idx 1..=256: all strings of length 3 starting with byte idx-1.
  /// idx 257..: length 4, first byte a class representative, second byte from one sixteenth of 0..=255,
  /// last two bytes from the interesting-byte table.
  fn run(&self, _seed: u64, idx: u64, _tier: Tier) -> RunOut {
    let mut out = RunOut::default();
    let mut vs = Vec::new();
    let mut n: u64 = 0;
    let mut wf: u64 = 0;
    if idx == 0 {
      compare(&[], &mut vs);
      n += 1;
      for a in 0..=255u8 {
        compare(&[a], &mut vs);
        n += 1;
        if ref_decode(&[a]).is_ok() {
          wf += 1;
        }
        for b in 0..=255u8 {
          compare(&[a, b], &mut vs);
          n += 1;
          if ref_decode(&[a, b]).is_ok() {
            wf += 1;
          }
        }
        dedup(&mut vs);
      }
      out.sample = Some(json!({"enumerated": "all byte strings of length 0, 1 and 2", "count": n}));
    } else if idx < X_LEN4_BASE {
      let a = (idx - X_LEN3_BASE) as u8;
      for b in 0..=255u8 {
        for c in 0..=255u8 {
          let s = [a, b, c];
          compare(&s, &mut vs);
          n += 1;
          if ref_decode(&s).is_ok() {
            wf += 1;
          }
        }
        dedup(&mut vs);
      }
      out.sample = Some(json!({"enumerated": format!("all byte strings of length 3 starting with {:02x}", a), "count": n}));
    } else {
      let reps = representative_initial_bytes();
      let j = (idx - X_LEN4_BASE) as usize;
      let a = reps[j / 16];
      let slice = (j % 16) as u8;
      for b in 0..16u8 {
        let b = slice * 16 + b;
        for c in INTERESTING {
          for d in INTERESTING {
            let s = [a, b, *c, *d];
            compare(&s, &mut vs);
            n += 1;
            if ref_decode(&s).is_ok() {
              wf += 1;
            }
          }
        }
        dedup(&mut vs);
      }
    }
    out.ops = n;
    out.probes.push(("well_formed_strings", wf));
    out.probes.push(("strings_enumerated", n));
    out.violations = vs;
    out.fp = crate::rng::fnv(&idx.to_le_bytes());
    out.nontrivial = true;
    out
  }

  fn exec_world(&self, world: &Value) -> Vec<Violation> {
    C11.exec_world(world)
  }
}

// ------------------------------------------------------------------------------------------------
// self-test of the reference model: RFC 8949 Appendix A examples and agreement with ciborium

pub fn selftest() -> Result<String, String> {
  // (hex, expected rendering by `show`)
  let table: &[(&str, &str)] = &[
    ("00", "0"),
    ("17", "23"),
    ("1818", "24"),
    ("1903e8", "1000"),
    ("1b000000e8d4a51000", "1000000000000"),
    ("1bffffffffffffffff", "18446744073709551615"),
    ("3bffffffffffffffff", "-18446744073709551616"),
    ("20", "-1"),
    ("3903e7", "-1000"),
    ("f4", "simple(20)"),
    ("f7", "simple(23)"),
    ("f0", "simple(16)"),
    ("f8ff", "simple(255)"),
    ("c074323031332d30332d32315432303a30343a30305a", "0(\"2013-03-21T20:04:00Z\")"),
    ("4401020304", "h'01020304'"),
    ("6449455446", "\"IETF\""),
    ("62c3bc", "\"ü\""),
    ("83010203", "[1, 2, 3]"),
    ("8301820203820405", "[1, [2, 3], [4, 5]]"),
    ("a201020304", "{1: 2, 3: 4}"),
    ("5f42010243030405ff", "h'0102030405'"),
    ("7f657374726561646d696e67ff", "\"streaming\""),
    ("9fff", "[]"),
    ("9f018202039f0405ffff", "[1, [2, 3], [4, 5]]"),
    ("bf61610161629f0203ffff", "{\"a\": 1, \"b\": [2, 3]}"),
    ("d74401020304", "23(h'01020304')"),
  ];
  for (h, want) in table {
    let b = unhex(h);
    match ref_decode(&b) {
      Ok((m, n)) if n == b.len() && show(&m) == *want => {}
      other => return Err(format!("model: {} expected {} got {:?}", h, want, other)),
    }
  }
  let floats: &[(&str, f64)] = &[
    ("f90000", 0.0),
    ("f93c00", 1.0),
    ("f93e00", 1.5),
    ("f97bff", 65504.0),
    ("f90001", 5.960464477539063e-8),
    ("f90400", 0.00006103515625),
    ("f9c400", -4.0),
    ("fa47c35000", 100000.0),
    ("fa7f7fffff", 3.4028234663852886e+38),
    ("fb3ff199999999999a", 1.1),
    ("fb7e37e43c8800759c", 1.0e+300),
    ("fbc010666666666666", -4.1),
    ("f97c00", f64::INFINITY),
    ("f9fc00", f64::NEG_INFINITY),
  ];
  for (h, want) in floats {
    match ref_decode(&unhex(h)) {
      Ok((MV::Float(bits), _)) if bits == want.to_bits() => {}
      other => return Err(format!("model float: {} expected {} got {:?}", h, want, other)),
    }
  }
  match ref_decode(&unhex("f97e00")) {
    Ok((MV::Float(NAN_BITS), 3)) => {}
    other => return Err(format!("model NaN: {:?}", other)),
  }
  let ill: &[&str] = &[
    "", "18", "19ff", "1c", "1f", "3f", "df", "ff", "f800", "f81f", "5f00ff", "5f5f4101ffff", "7f4101ff", "7f61", "81", "a100",
    "bf00ff", "9f", "62c328", "7f61c361bcff", "fc", "fd", "fe", "5c", "9e", "dc00", "5f41", "7f7fff",
  ];
  for h in ill {
    if let Ok(x) = ref_decode(&unhex(h)) {
      return Err(format!("model accepts ill-formed {}: {:?}", h, x));
    }
  }
  // agreement with ciborium on items both can represent (no simple values other than bool/null,
  // no negative integers below -2^63... ciborium's Integer covers the full range)
  let mut agree = 0u64;
  for i in 0..20_000u64 {
    let mut r = Rng::stream(7, "c11-selftest", i, "workload");
    let mut k = Rng::stream(7, "c11-selftest", i, "knobs");
    let mut cfg = EncCfg::swarm(&mut k);
    cfg.simples = false;
    let mut enc = Vec::new();
    let v = gen_item(&mut enc, &mut r, &cfg, 0);
    fn has_simple(v: &MV) -> bool {
      match v {
        MV::Simple(s) => !(20..=22).contains(s),
        MV::Array(a) => a.iter().any(has_simple),
        MV::Map(m) => m.iter().any(|(k, v)| has_simple(k) || has_simple(v)),
        // ciborium's serde layer folds tag 2/3 byte strings into integers: not comparable
        MV::Tag(n, t) => *n == 2 || *n == 3 || has_simple(t),
        _ => false,
      }
    }
    if has_simple(&v) {
      continue;
    }
    let c: Result<ciborium::value::Value, _> = ciborium::de::from_reader(&enc[..]);
    match c {
      Ok(cv) => {
        let m = to_model(&cddl::validator::cbor_value::Value::from(cv));
        if m != v {
          return Err(format!("ciborium disagrees with writer on {}: {} vs {}", hex(&enc), show(&m), show(&v)));
        }
        agree += 1;
      }
      Err(e) => return Err(format!("ciborium rejects writer output {}: {:?} (value {})", hex(&enc), e, show(&v))),
    }
    match ref_decode(&enc) {
      Ok((m, n)) if m == v && n == enc.len() => {}
      other => return Err(format!("model disagrees with writer on {}: {:?}", hex(&enc), other)),
    }
  }
  Ok(format!("reference model: {} RFC 8949 examples, {} ill-formed strings, {} random items agree with ciborium and the writer", table.len() + floats.len() + 1, ill.len(), agree))
}
