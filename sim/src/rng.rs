//! The only source of randomness in the simulator: SplitMix64-seeded xoshiro256**.
//! Streams are split by (seed, check, run index, purpose) so that run `i` is the same execution
//! whatever the worker count and whatever ran before it.

#[derive(Clone, Debug)]
pub struct Rng {
  s: [u64; 4],
}

pub fn splitmix(x: &mut u64) -> u64 {
  *x = x.wrapping_add(0x9E37_79B9_7F4A_7C15);
  let mut z = *x;
  z = (z ^ (z >> 30)).wrapping_mul(0xBF58_476D_1CE4_E5B9);
  z = (z ^ (z >> 27)).wrapping_mul(0x94D0_49BB_1331_11EB);
  z ^ (z >> 31)
}

/// FNV-1a, 64 bit. Used for stream names and for run fingerprints.
pub fn fnv(bytes: &[u8]) -> u64 {
  let mut h: u64 = 0xcbf2_9ce4_8422_2325;
  for b in bytes {
    h ^= *b as u64;
    h = h.wrapping_mul(0x0000_0100_0000_01B3);
  }
  h
}

pub fn fnv_add(h: u64, bytes: &[u8]) -> u64 {
  let mut h = h;
  for b in bytes {
    h ^= *b as u64;
    h = h.wrapping_mul(0x0000_0100_0000_01B3);
  }
  h
}

impl Rng {
  pub fn from_u64(seed: u64) -> Rng {
    let mut x = seed;
    let s = [
      splitmix(&mut x),
      splitmix(&mut x),
      splitmix(&mut x),
      splitmix(&mut x),
    ];
    Rng { s }
  }

  /// The stream for run `run` of check `check`, purpose `purpose`.
  pub fn stream(seed: u64, check: &str, run: u64, purpose: &str) -> Rng {
    let mut x = seed
      ^ fnv(check.as_bytes()).rotate_left(17)
      ^ run.wrapping_mul(0x9E37_79B9_7F4A_7C15)
      ^ fnv(purpose.as_bytes()).rotate_left(41);
    // one extra scramble so that neighbouring runs are unrelated
    let y = splitmix(&mut x);
    Rng::from_u64(y ^ run)
  }

  pub fn next_u64(&mut self) -> u64 {
    let r = self.s[1].wrapping_mul(5).rotate_left(7).wrapping_mul(9);
    let t = self.s[1] << 17;
    self.s[2] ^= self.s[0];
    self.s[3] ^= self.s[1];
    self.s[1] ^= self.s[2];
    self.s[0] ^= self.s[3];
    self.s[2] ^= t;
    self.s[3] = self.s[3].rotate_left(45);
    r
  }

  /// Uniform in 0..n (n > 0).
  pub fn below(&mut self, n: usize) -> usize {
    debug_assert!(n > 0);
    ((self.next_u64() >> 11) % (n as u64)) as usize
  }

  /// Uniform in lo..=hi.
  pub fn range(&mut self, lo: usize, hi: usize) -> usize {
    lo + self.below(hi - lo + 1)
  }

  pub fn chance(&mut self, num: u32, den: u32) -> bool {
    (self.next_u64() >> 33) % (den as u64) < num as u64
  }

  pub fn coin(&mut self) -> bool {
    self.next_u64() >> 63 == 1
  }

  pub fn pick<'a, T>(&mut self, xs: &'a [T]) -> &'a T {
    &xs[self.below(xs.len())]
  }

  pub fn byte(&mut self) -> u8 {
    (self.next_u64() >> 56) as u8
  }

  pub fn shuffle<T>(&mut self, xs: &mut [T]) {
    for i in (1..xs.len()).rev() {
      let j = self.below(i + 1);
      xs.swap(i, j);
    }
  }

  /// Weighted choice: returns the index of the chosen weight.
  pub fn weighted(&mut self, weights: &[u32]) -> usize {
    let total: u64 = weights.iter().map(|w| *w as u64).sum();
    let mut x = (self.next_u64() >> 11) % total.max(1);
    for (i, w) in weights.iter().enumerate() {
      if x < *w as u64 {
        return i;
      }
      x -= *w as u64;
    }
    weights.len() - 1
  }
}
