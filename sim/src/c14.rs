//! C14 — validation failures are reported faithfully and deterministically, also after and between other
//! calls in the same process.
//!
//! One run = a *call pool* (schema, document, format, feature list) arranged to provoke leakage between
//! calls, a set of simulated clients (real OS threads, each with its own thread-locals and hash keys)
//! that own sequences of calls from the pool, and a seeded baton scheduler that releases exactly one
//! client at a time at API-call boundaries. The sequential reference of every call is the same call made
//! alone in a fresh process (zygote.rs). Invariants after every returned call:
//!   1. history independence: response == fresh-process reference (kind + ordered (location, reason, ..) list)
//!   2. Err(Validation(list)) => list non-empty
//!   3. error kinds are distinguishable: malformed schema / malformed document / non-conforming document
//!      map to the variants the API reserves for them (oracle: independent parses of schema and document)
//!   4. every JSON error location is "" or a /-separated path that resolves in the document

use crate::c05::corpus;
use crate::cborref::EncCfg;
use crate::gen::*;
use crate::kernel::*;
use crate::minimize::{ddmin, Budget};
use crate::rng::{fnv, fnv_add, Rng};
use crate::zygote;
use cddl::validator::Validator as _;
use serde_json::{json, Value};
use std::sync::{Condvar, Mutex};

pub struct C14;
pub static C14_CHECK: C14 = C14;

#[derive(Clone, Debug, PartialEq)]
pub struct Call {
  /// "json" | "cbor" | "csv0" | "csv1" | "fmt"
  pub kind: String,
  pub schema: String,
  pub doc: Vec<u8>,
  pub features: Option<Vec<String>>,
}

impl Call {
  pub fn to_json(&self) -> Value {
    let doc = match (self.kind.as_str(), std::str::from_utf8(&self.doc)) {
      ("cbor", _) | (_, Err(_)) => json!({"hex": hex(&self.doc)}),
      (_, Ok(s)) => json!({"text": s}),
    };
    json!({"kind": self.kind, "schema": self.schema, "doc": doc, "features": self.features})
  }
  pub fn from_json(v: &Value) -> Call {
    let doc = if let Some(s) = v["doc"]["text"].as_str() { s.as_bytes().to_vec() } else { unhex(v["doc"]["hex"].as_str().unwrap_or("")) };
    Call {
      kind: v["kind"].as_str().unwrap_or("json").to_string(),
      schema: v["schema"].as_str().unwrap_or("").to_string(),
      doc,
      features: v["features"].as_array().map(|a| a.iter().filter_map(|x| x.as_str().map(|s| s.to_string())).collect()),
    }
  }
}

/// What a caller can observe of one call.
#[derive(Clone, Debug, PartialEq)]
pub struct Resp {
  /// "ok" | "validation" | "cddl" | "docparse" | "other:<variant>" | "panic" | "fmt"
  pub kind: String,
  /// ordered (data location, reason, cddl location, flags)
  pub list: Vec<(String, String, String, String)>,
  /// message of the non-list kinds / formatted text digest
  pub text: String,
}

impl Resp {
  pub fn to_json(&self) -> Value {
    json!({"kind": self.kind, "list": self.list.iter().map(|e| json!([e.0, e.1, e.2, e.3])).collect::<Vec<_>>(), "text": self.text})
  }
  pub fn from_json(v: &Value) -> Resp {
    Resp {
      kind: v["kind"].as_str().unwrap_or("").to_string(),
      list: v["list"]
        .as_array()
        .map(|a| {
          a.iter()
            .map(|e| {
              (
                e[0].as_str().unwrap_or("").to_string(),
                e[1].as_str().unwrap_or("").to_string(),
                e[2].as_str().unwrap_or("").to_string(),
                e[3].as_str().unwrap_or("").to_string(),
              )
            })
            .collect()
        })
        .unwrap_or_default(),
      text: v["text"].as_str().unwrap_or("").to_string(),
    }
  }
  fn digest(&self) -> u64 {
    fnv(self.to_json().to_string().as_bytes())
  }
  fn brief(&self) -> String {
    let mut s = format!("{}[{}]", self.kind, self.list.len());
    if let Some(e) = self.list.first() {
      s.push_str(&format!(" first=({:?}, {:?})", e.0, e.1.chars().take(80).collect::<String>()));
    }
    if !self.text.is_empty() {
      s.push_str(&format!(" text={:?}", self.text.chars().take(100).collect::<String>()));
    }
    s
  }
}

fn json_list(l: &[cddl::validator::json::ValidationError]) -> Vec<(String, String, String, String)> {
  l.iter()
    .map(|e| {
      (
        e.json_location.clone(),
        e.reason.clone(),
        e.cddl_location.clone(),
        format!("{}{}{}:{:?}", e.is_multi_type_choice as u8, e.is_multi_group_choice as u8, e.is_group_to_choice_enum as u8, e.type_group_name_entry),
      )
    })
    .collect()
}

fn cbor_list(l: &[cddl::validator::cbor::ValidationError]) -> Vec<(String, String, String, String)> {
  l.iter()
    .map(|e| {
      (
        e.cbor_location.clone(),
        e.reason.clone(),
        e.cddl_location.clone(),
        format!("{}{}{}:{:?}", e.is_multi_type_choice as u8, e.is_multi_group_choice as u8, e.is_group_to_choice_enum as u8, e.type_group_name_entry),
      )
    })
    .collect()
}

fn json_err(e: cddl::validator::json::Error) -> Resp {
  use cddl::validator::json::Error as E;
  match e {
    E::Validation(l) => Resp { kind: "validation".into(), list: json_list(&l), text: String::new() },
    E::CDDLParsing(s) => Resp { kind: "cddl".into(), list: vec![], text: s },
    E::JSONParsing(s) => Resp { kind: "docparse".into(), list: vec![], text: s.to_string() },
    E::UTF8Parsing(s) => Resp { kind: "other:UTF8Parsing".into(), list: vec![], text: s.to_string() },
    E::DisabledFeature(s) => Resp { kind: "other:DisabledFeature".into(), list: vec![], text: s },
  }
}

fn cbor_err(e: cddl::validator::cbor::Error<std::io::Error>) -> Resp {
  use cddl::validator::cbor::Error as E;
  match e {
    E::Validation(l) => Resp { kind: "validation".into(), list: cbor_list(&l), text: String::new() },
    E::CDDLParsing(s) => Resp { kind: "cddl".into(), list: vec![], text: s },
    E::CBORParsing(s) => Resp { kind: "docparse".into(), list: vec![], text: s.to_string() },
    E::JSONParsing(s) => Resp { kind: "other:JSONParsing".into(), list: vec![], text: s.to_string() },
    E::UTF8Parsing(s) => Resp { kind: "other:UTF8Parsing".into(), list: vec![], text: s.to_string() },
    E::Base16Decoding(s) => Resp { kind: "other:Base16Decoding".into(), list: vec![], text: s.to_string() },
    E::Base64Decoding(s) => Resp { kind: "other:Base64Decoding".into(), list: vec![], text: s.to_string() },
  }
}

/// Execute one call through the public string/slice entry points.
pub fn exec_call(c: &Call) -> Resp {
  let feats_owned: Option<Vec<&str>> = c.features.as_ref().map(|f| f.iter().map(|s| s.as_str()).collect());
  let feats: Option<&[&str]> = feats_owned.as_deref();
  let r = guarded(|| match c.kind.as_str() {
    "json" => match std::str::from_utf8(&c.doc) {
      Ok(d) => match cddl::validate_json_from_str(&c.schema, d, feats) {
        Ok(()) => Resp { kind: "ok".into(), list: vec![], text: String::new() },
        Err(e) => json_err(e),
      },
      Err(_) => Resp { kind: "skipped".into(), list: vec![], text: String::new() },
    },
    "cbor" => match cddl::validate_cbor_from_slice(&c.schema, &c.doc, feats) {
      Ok(()) => Resp { kind: "ok".into(), list: vec![], text: String::new() },
      Err(e) => cbor_err(e),
    },
    "csv0" | "csv1" => match std::str::from_utf8(&c.doc) {
      Ok(d) => match cddl::validate_csv_from_str(&c.schema, d, Some(c.kind == "csv1"), feats) {
        Ok(()) => Resp { kind: "ok".into(), list: vec![], text: String::new() },
        Err(e) => {
          use cddl::validator::csv_validator::Error as E;
          match e {
            E::Validation(l) => Resp { kind: "validation".into(), list: json_list(&l), text: String::new() },
            E::CDDLParsing(s) => Resp { kind: "cddl".into(), list: vec![], text: s },
            E::CSVParsing(s) => Resp { kind: "docparse".into(), list: vec![], text: s.to_string() },
            E::JSONSerialization(s) => Resp { kind: "other:JSONSerialization".into(), list: vec![], text: s.to_string() },
            E::JSONValidation(j) => json_err(j),
          }
        }
      },
      Err(_) => Resp { kind: "skipped".into(), list: vec![], text: String::new() },
    },
    _ => match cddl::cddl_from_str(&c.schema, false) {
      // "fmt": parse and format; the observable is the error text or the formatted text
      Ok(ast) => Resp { kind: "fmt".into(), list: vec![], text: ast.to_string() },
      Err(e) => Resp { kind: "cddl".into(), list: vec![], text: e },
    },
  });
  match r {
    Ok(r) => r,
    Err(p) => Resp { kind: "panic".into(), list: vec![], text: format!("{} at {}", p.msg, panic_site(&p)) },
  }
}

/// The same call through a validator object built on an AST that other clients share by reference.
fn exec_call_shared(ast: &cddl::ast::CDDL<'_>, c: &Call) -> Resp {
  let feats_owned: Option<Vec<&str>> = c.features.as_ref().map(|f| f.iter().map(|s| s.as_str()).collect());
  let feats: Option<&[&str]> = feats_owned.as_deref();
  let r = guarded(|| match c.kind.as_str() {
    "json" => match serde_json::from_slice::<serde_json::Value>(&c.doc) {
      Ok(v) => {
        let mut jv = cddl::validator::json::JSONValidator::new(ast, v, feats);
        match jv.validate() {
          Ok(()) => Resp { kind: "ok".into(), list: vec![], text: String::new() },
          Err(e) => json_err(e),
        }
      }
      Err(e) => Resp { kind: "docparse".into(), list: vec![], text: e.to_string() },
    },
    _ => match cddl::validator::cbor_value::decode_cbor(&c.doc) {
      Ok(v) => {
        let mut cv = cddl::validator::cbor::CBORValidator::new(ast, v, feats);
        match cv.validate() {
          Ok(()) => Resp { kind: "ok".into(), list: vec![], text: String::new() },
          Err(e) => cbor_err(e),
        }
      }
      Err(e) => Resp { kind: "docparse".into(), list: vec![], text: format!("Semantic(None, \"{}\")", e) },
    },
  });
  match r {
    Ok(r) => r,
    Err(p) => Resp { kind: "panic".into(), list: vec![], text: format!("{} at {}", p.msg, panic_site(&p)) },
  }
}

/// What the fresh-process grandchild runs: the given calls, in the given order, nothing else.
fn zygote_eval(req: &Value) -> Value {
  let calls: Vec<Call> = req["calls"].as_array().map(|a| a.iter().map(Call::from_json).collect()).unwrap_or_default();
  let resps: Vec<Value> = calls.iter().map(|c| exec_call(c).to_json()).collect();
  json!({"resps": resps})
}

// ------------------------------------------------------------------------------------------------
// the world: pool + clients + schedule

#[derive(Clone, Debug)]
pub struct World {
  pub pool: Vec<Call>,
  /// the linearised history: (client, call index); the order is the schedule the baton enforces
  pub history: Vec<(usize, usize)>,
  pub clients: usize,
  /// clients build validators on one AST shared by reference (pool calls then all use pool[0].schema)
  pub shared_ast: bool,
  /// order in which the reference process evaluates the pool entries (chosen independently of the history)
  pub ref_order: Vec<usize>,
  pub origin: String,
}

impl World {
  pub fn to_json(&self) -> Value {
    json!({
      "pool": self.pool.iter().map(|c| c.to_json()).collect::<Vec<_>>(),
      "history": self.history.iter().map(|(c, k)| json!([c, k])).collect::<Vec<_>>(),
      "clients": self.clients,
      "shared_ast": self.shared_ast,
      "ref_order": self.ref_order,
      "origin": self.origin,
    })
  }
  pub fn from_json(v: &Value) -> World {
    World {
      pool: v["pool"].as_array().map(|a| a.iter().map(Call::from_json).collect()).unwrap_or_default(),
      history: v["history"]
        .as_array()
        .map(|a| a.iter().map(|e| (e[0].as_u64().unwrap_or(0) as usize, e[1].as_u64().unwrap_or(0) as usize)).collect())
        .unwrap_or_default(),
      clients: v["clients"].as_u64().unwrap_or(1) as usize,
      shared_ast: v["shared_ast"].as_bool().unwrap_or(false),
      ref_order: v["ref_order"].as_array().map(|a| a.iter().map(|x| x.as_u64().unwrap_or(0) as usize).collect()).unwrap_or_default(),
      origin: v["origin"].as_str().unwrap_or("").to_string(),
    }
  }
}

const REGEX_LITERALS: &[(&str, &[&str])] = &[
  ("[k-p]{4}", &["klmn", "--klmn--", "KLMN", "kl", ""]),
  ("a+b", &["aab", "xaaby", "b", "AAB"]),
  ("[0-9]+", &["42", "a42b", "", "４２"]),
  ("(foo|bar)baz", &["foobaz", "xfoobazx", "baz"]),
  ("^x.z$", &["xyz", "xyzz", "x\nz"]),
  ("\\d{3}-\\d{2}", &["123-45", "0123-456", "12-345"]),
];

fn jstr(s: &str) -> Vec<u8> {
  serde_json::to_string(s).unwrap().into_bytes()
}

fn cbor_text(s: &str) -> Vec<u8> {
  let mut out = Vec::new();
  let n = s.len();
  if n < 24 {
    out.push(0x60 | n as u8);
  } else {
    out.push(0x78);
    out.push(n as u8);
  }
  out.extend_from_slice(s.as_bytes());
  out
}

fn malform_schema(r: &mut Rng, schema: &str) -> String {
  // several duplicate rule names / undefined references at once: *which* one is reported must not depend
  // on hash order or on what ran before
  let mut s = schema.to_string();
  if !s.ends_with('\n') {
    s.push('\n');
  }
  match r.below(4) {
    0 => {
      for n in ["dup-a", "dup-b", "dup-c", "dup-d"] {
        s.push_str(&format!("{} = int\n", n));
      }
      let mut names = vec!["dup-a", "dup-b", "dup-c", "dup-d"];
      r.shuffle(&mut names);
      for n in names {
        s.push_str(&format!("{} = tstr\n", n));
      }
    }
    1 => {
      let mut names = vec!["undef-a", "undef-b", "undef-c", "undef-d", "undef-e"];
      r.shuffle(&mut names);
      s.push_str(&format!("uses-undefined = [{}]\n", names.join(", ")));
    }
    2 => {
      let p = r.below(s.len().max(1));
      let mut q = p;
      while !s.is_char_boundary(q) {
        q += 1;
      }
      s.insert_str(q, *r.pick(&["[", "{", "(", "\"", "= =", "#6.", "/ /", "<"]));
    }
    _ => {
      s.push_str("x = [1, 2\ny = {a: int\n");
    }
  }
  s
}

fn malform_json(r: &mut Rng, j: &[u8]) -> Vec<u8> {
  let mut v = j.to_vec();
  match r.below(4) {
    0 if v.len() > 1 => {
      let k = r.range(1, v.len() - 1);
      v.truncate(k);
      // a truncated scalar can still be valid JSON: make sure it is not
      v.extend_from_slice(b" [");
    }
    1 => v.extend_from_slice(b" }"),
    2 => v.insert(0, b','),
    _ => {
      v = b"{\"a\": 1,}".to_vec();
    }
  }
  v
}

fn malform_cbor(r: &mut Rng, b: &[u8]) -> Vec<u8> {
  let mut v = b.to_vec();
  match r.below(4) {
    0 if v.len() > 1 => {
      let k = r.range(1, v.len() - 1);
      v.truncate(k);
    }
    1 => v = vec![0xff],
    2 => v = vec![0x1c],
    _ => v = vec![0x9f, 0x01],
  }
  v
}

/// Pool builders. Each returns calls that are related in a way that would expose state leaking from one
/// call into another.
fn build_pool(seed: u64, idx: u64, out: &mut RunOut) -> (Vec<Call>, bool, String) {
  let mut rw = Rng::stream(seed, "c14", idx, "workload");
  let mut rk = Rng::stream(seed, "c14", idx, "knobs");
  let dcfg = DocCfg { cbor_only: false, ..DocCfg::swarm(&mut rk) };
  let enc = EncCfg::swarm(&mut rk);
  let mut pool: Vec<Call> = Vec::new();
  let mut shared = false;
  let origin;
  let feats_opts: [Option<Vec<String>>; 3] = [None, Some(vec![]), Some(vec!["featx".into()])];
  match rk.weighted(&[5, 3, 3, 2, 2, 2, 1, 2, 2, 2]) {
    0 => {
      // two or three independently inferred schemas: they reuse the rule names root, r1, r2, ... with
      // different definitions; conforming, perturbed and malformed documents; all formats
      origin = "name-collision".to_string();
      out.probe("pool_name_collision");
      let n = rw.range(2, 3);
      for _ in 0..n {
        let doc = gen_doc(&mut rw, &dcfg, 0);
        let mut scfg = SchemaCfg::swarm(&mut rk);
        scfg.hazards = false;
        let mut g = SchemaGen::new(&mut rw, scfg);
        let root = g.ty(&doc, 0);
        let schema = g.finish(root);
        let bad = perturb(&mut rw, &dcfg, &doc);
        let f = rk.pick(&feats_opts).clone();
        for d in [&doc, &bad] {
          pool.push(Call { kind: "json".into(), schema: schema.clone(), doc: to_json(d).into_bytes(), features: f.clone() });
          let mut b = Vec::new();
          to_cbor(d, &mut b, &enc, &mut rw);
          pool.push(Call { kind: "cbor".into(), schema: schema.clone(), doc: b, features: f.clone() });
        }
        if rw.chance(1, 2) {
          pool.push(Call { kind: "fmt".into(), schema: schema.clone(), doc: vec![], features: None });
        }
        if rw.chance(1, 3) {
          let csv = to_csv(&gen_csv_doc(&mut rw, &dcfg), &mut rw).into_bytes();
          pool.push(Call { kind: if rw.coin() { "csv0".into() } else { "csv1".into() }, schema: schema.clone(), doc: csv, features: f.clone() });
        }
      }
    }
    1 => {
      // the same literal under different regular-expression controls, first use by different clients
      origin = "regex-controls".to_string();
      out.probe("pool_regex_controls");
      let (lit, docs) = *rw.pick(REGEX_LITERALS);
      let lit_c = cddl_text_literal(lit);
      let mut ctrls = vec![".regexp", ".pcre", ".iregexp"];
      rw.shuffle(&mut ctrls);
      let n = rw.range(2, 3);
      for ctrl in ctrls.into_iter().take(n) {
        let schema = format!("root = tstr {} {}\n", ctrl, lit_c);
        for d in docs.iter() {
          if rw.chance(2, 3) {
            pool.push(Call { kind: "json".into(), schema: schema.clone(), doc: jstr(d), features: None });
          }
          if rw.chance(1, 3) {
            pool.push(Call { kind: "cbor".into(), schema: schema.clone(), doc: cbor_text(d), features: None });
          }
        }
      }
      if let Some(&(lit2, docs2)) = if rw.coin() { Some(rw.pick(REGEX_LITERALS)) } else { None } {
        let schema = format!("root = [* tstr .regexp {}]\n", cddl_text_literal(lit2));
        let arr: Vec<String> = docs2.iter().map(|s| s.to_string()).collect();
        pool.push(Call { kind: "json".into(), schema, doc: serde_json::to_vec(&arr).unwrap(), features: None });
      }
    }
    2 => {
      // one schema with feature-gated alternatives, every feature list; uri / tdate / abnf first uses
      origin = "features-and-prelude".to_string();
      out.probe("pool_features_prelude");
      let schema = match rw.below(4) {
        0 => "root = { a: int .feature \"featx\" / tstr, ? b: uri, ? c: tdate }\n".to_string(),
        1 => "root = [* item]\nitem = (tstr .abnf \"r\\nr = 1*DIGIT\\n\") / uri / (int .feature \"featx\")\n".to_string(),
        2 => "root = { * tstr => v }\nv = uri / tdate / b64url / (float .feature \"other\") / [* v]\n".to_string(),
        _ => "root = { id: uint .lt 100, tags: [* tstr .size (1..8)], ? when: tdate, ? link: uri } .feature \"featx\"\n".to_string(),
      };
      let docs: &[&str] = &[
        "{\"a\": 1}",
        "{\"a\": \"x\", \"b\": \"https://example.com/a?b#c\", \"c\": \"1985-04-12T23:20:50.52Z\"}",
        "{\"a\": 1.5, \"b\": \"::\", \"c\": \"yesterday\"}",
        "[\"123\", \"urn:ietf:rfc:8610\", 7, \"12a\"]",
        "{\"k\": \"aGVsbG8\", \"l\": [\"urn:x:y\", \"2020-01-01T00:00:00Z\", 1.5]}",
        "{\"id\": 5, \"tags\": [\"a\", \"toolongtag\"], \"when\": \"2020-01-01T00:00:00Z\", \"link\": \"no scheme\"}",
        "{\"id\": 500, \"tags\": []}",
      ];
      for d in docs {
        if rw.chance(2, 3) {
          for f in feats_opts.iter() {
            if rw.chance(2, 3) {
              pool.push(Call { kind: "json".into(), schema: schema.clone(), doc: d.as_bytes().to_vec(), features: f.clone() });
            }
          }
        }
      }
    }
    3 => {
      // error kinds: malformed schema, malformed document, non-conforming document, for one base schema
      origin = "error-kinds".to_string();
      out.probe("pool_error_kinds");
      let doc = gen_doc(&mut rw, &dcfg, 0);
      let mut scfg = SchemaCfg::swarm(&mut rk);
      scfg.hazards = false;
      let mut g = SchemaGen::new(&mut rw, scfg);
      let root = g.ty(&doc, 0);
      let schema = g.finish(root);
      let bad_schema = malform_schema(&mut rw, &schema);
      let bad_schema2 = malform_schema(&mut rw, &schema);
      let j = to_json(&doc).into_bytes();
      let mut cb = Vec::new();
      to_cbor(&doc, &mut cb, &enc, &mut rw);
      let nonconf = perturb(&mut rw, &dcfg, &doc);
      for s in [&schema, &bad_schema, &bad_schema2] {
        pool.push(Call { kind: "json".into(), schema: s.clone(), doc: j.clone(), features: None });
        pool.push(Call { kind: "cbor".into(), schema: s.clone(), doc: cb.clone(), features: None });
        pool.push(Call { kind: "fmt".into(), schema: s.clone(), doc: vec![], features: None });
      }
      pool.push(Call { kind: "json".into(), schema: schema.clone(), doc: malform_json(&mut rw, &j), features: None });
      pool.push(Call { kind: "cbor".into(), schema: schema.clone(), doc: malform_cbor(&mut rw, &cb), features: None });
      pool.push(Call { kind: "json".into(), schema: schema.clone(), doc: to_json(&nonconf).into_bytes(), features: None });
      pool.push(Call { kind: "cbor".into(), schema: schema.clone(), doc: to_cbor_min(&nonconf), features: None });
      pool.push(Call { kind: "json".into(), schema: bad_schema.clone(), doc: malform_json(&mut rw, &j), features: None });
      let csvdoc = gen_csv_doc(&mut rw, &dcfg);
      let csv = to_csv(&csvdoc, &mut rw).into_bytes();
      pool.push(Call { kind: "csv0".into(), schema: bad_schema.clone(), doc: csv.clone(), features: None });
      pool.push(Call { kind: "csv0".into(), schema: schema.clone(), doc: csv.clone(), features: None });
      // awkward documents on every route, under the good and a bad schema: empty, BOM-prefixed, trailing content
      let mut bom_json = vec![0xef, 0xbb, 0xbf];
      bom_json.extend_from_slice(&j);
      let mut trailing_json = j.clone();
      trailing_json.extend_from_slice(b" 1");
      let mut trailing_cbor = cb.clone();
      trailing_cbor.push(0x00);
      let mut bom_csv = vec![0xef, 0xbb, 0xbf];
      bom_csv.extend_from_slice(&csv);
      let second_stage_bad = format!("{}dup-x = int\ndup-x = tstr\nuses = [undefined-y]\n", if schema.ends_with('\n') { schema.clone() } else { format!("{}\n", schema) });
      for sch in [&schema, &second_stage_bad] {
        if rw.coin() {
          pool.push(Call { kind: "json".into(), schema: sch.clone(), doc: Vec::new(), features: None });
        }
        if rw.coin() {
          pool.push(Call { kind: "json".into(), schema: sch.clone(), doc: bom_json.clone(), features: None });
        }
        if rw.coin() {
          pool.push(Call { kind: "json".into(), schema: sch.clone(), doc: trailing_json.clone(), features: None });
        }
        if rw.coin() {
          pool.push(Call { kind: "cbor".into(), schema: sch.clone(), doc: Vec::new(), features: None });
        }
        if rw.coin() {
          pool.push(Call { kind: "cbor".into(), schema: sch.clone(), doc: trailing_cbor.clone(), features: None });
        }
        if rw.coin() {
          pool.push(Call { kind: if rw.coin() { "csv0".into() } else { "csv1".into() }, schema: sch.clone(), doc: Vec::new(), features: None });
        }
        if rw.coin() {
          pool.push(Call { kind: if rw.coin() { "csv0".into() } else { "csv1".into() }, schema: sch.clone(), doc: bom_csv.clone(), features: None });
        }
      }
      while pool.len() > 16 {
        let k = rw.below(pool.len());
        pool.remove(k);
      }
    }
    4 => {
      // fixtures: valid data at rest, every document of a schema plus documents of another schema
      origin = "corpus".to_string();
      out.probe("pool_corpus");
      let c = corpus();
      if !c.schemas.is_empty() {
        for _ in 0..2 {
          let si = rw.below(c.schemas.len());
          let schema = c.schemas[si].1.clone();
          for (k, _, j) in c.json.iter() {
            if *k == si || rw.chance(1, 12) {
              pool.push(Call { kind: "json".into(), schema: schema.clone(), doc: j.as_bytes().to_vec(), features: None });
            }
          }
          for (k, _, b) in c.cbor.iter() {
            if *k == si || rw.chance(1, 12) {
              pool.push(Call { kind: "cbor".into(), schema: schema.clone(), doc: b.clone(), features: None });
            }
          }
          for (k, _, v) in c.csv.iter() {
            if *k == si {
              pool.push(Call { kind: "csv0".into(), schema: schema.clone(), doc: v.as_bytes().to_vec(), features: None });
              pool.push(Call { kind: "csv1".into(), schema: schema.clone(), doc: v.as_bytes().to_vec(), features: None });
            }
          }
        }
        while pool.len() > 10 {
          let k = rw.below(pool.len());
          pool.remove(k);
        }
      }
    }
    8 => {
      // error locations in awkward places: keys containing '/', '~', quotes or nothing at all, numeric-looking
      // keys, array indices of two digits, errors after skipped optional members and failed alternatives
      origin = "locations".to_string();
      out.probe("pool_locations");
      let schemas = [
        "root = { * tstr => [* int] }\n",
        "root = { ? \"a/b\": inner, ? \"\": inner, ? \"~\": inner, ? \"0\": inner, * tstr => any }\ninner = { ? opt: tstr, v: [* uint] / nil }\n",
        "root = [* { ? skip: int, id: uint, tags: [* tstr .size (1..3)] } / [* int]]\n",
        "root = { list: [12*20 item] }\nitem = int / { k: tstr }\n",
      ];
      let docs = [
        r#"{"a/b":[0,1,2,3,4,5,6,7,8,9,10,11,"x"],"":["y"],"~":[1,"z"],"0":[true]}"#,
        r#"{"a/b":{"v":[1,2,-3]},"":{"opt":5,"v":null},"~":{"v":[0,1,2,3,4,5,6,7,8,9,10,"e"]},"0":{"v":"no"},"q"uote":1}"#,
        r#"[{"id":1,"tags":["ab"]},{"skip":"s","id":2,"tags":["abcd"]},[1,2,"three"],{"id":-1,"tags":[]},{"id":3,"tags":["a","b","c","d","toolong"]}]"#,
        r#"{"list":[0,1,2,3,4,5,6,7,8,9,10,{"k":11},12,{"k":13},"bad",15]}"#,
        r#"{"list":[0,1,2]}"#,
      ];
      for sch in schemas.iter() {
        for d in docs.iter() {
          if rw.chance(1, 2) {
            pool.push(Call { kind: "json".into(), schema: sch.to_string(), doc: d.as_bytes().to_vec(), features: None });
          }
        }
      }
      while pool.len() > 9 {
        let k = rw.below(pool.len());
        pool.remove(k);
      }
    }
    7 => {
      // calls that END UNUSUALLY (a hard error from inside validation: malformed controller of .regexp / .pcre /
      // .abnf reached through a named rule; a disabled feature; a cut) before the same rule names are
      // validated again at the same locations with the controller repaired: whatever the early return skipped
      // (a guard entry not removed, a location not restored) must not reach the next call
      origin = "after-hard-error".to_string();
      out.probe("pool_after_hard_error");
      let (ctrl, broken, fixed, good_doc, bad_doc) = *rw.pick(&[
        (".regexp", "\"[a-z]+(\"", "\"[a-z]+\"", "abc", "ABC"),
        (".pcre", "\"(?<n>[a-z]+\"", "\"(?<n>[a-z]+)\"", "abc", "123"),
        (".regexp", "\"a{2,1}\"", "\"a{1,2}\"", "aa", "b"),
        (".abnf", "\"r\\nr = 1*(\"", "\"r\\nr = 1*DIGIT\\n\"", "123", "12a"),
        (".iregexp", "\"[z-a]\"", "\"[a-z]\"", "q", "7"),
      ]);
      let shape = *rw.pick(&[
        "root = { id: label, ? tags: [* label] }\nlabel = tstr CTRL LIT\n",
        "root = [* item]\nitem = label / int\nlabel = tstr CTRL LIT\n",
        "root = { * tstr => label }\nlabel = (tstr CTRL LIT) / nil\n",
        "root = label\nlabel = tstr CTRL LIT\n",
      ]);
      let mk = |lit: &str| shape.replace("CTRL", ctrl).replace("LIT", lit);
      let docs_for = |s: &str, v: &str| -> String {
        if s.starts_with("root = { id") {
          format!("{{\"id\": {:?}, \"tags\": [{:?}, {:?}]}}", v, v, v)
        } else if s.starts_with("root = [") {
          format!("[{:?}, 1, {:?}]", v, v)
        } else if s.starts_with("root = { *") {
          format!("{{\"k\": {:?}, \"l\": null}}", v)
        } else {
          format!("{:?}", v)
        }
      };
      let broken_schema = mk(broken);
      let fixed_schema = mk(fixed);
      for (schema, d) in [(&broken_schema, good_doc), (&fixed_schema, good_doc), (&fixed_schema, bad_doc), (&broken_schema, bad_doc)] {
        let j = docs_for(schema, d);
        pool.push(Call { kind: "json".into(), schema: schema.clone(), doc: j.clone().into_bytes(), features: None });
        if rw.coin() {
          if let Ok(v) = serde_json::from_str::<serde_json::Value>(&j) {
            let mut b = Vec::new();
            if ciborium::ser::into_writer(&v, &mut b).is_ok() {
              pool.push(Call { kind: "cbor".into(), schema: schema.clone(), doc: b, features: None });
            }
          }
        }
      }
      // feature mismatch and cut as other unusual endings
      pool.push(Call { kind: "json".into(), schema: "root = { id: label }\nlabel = tstr .feature \"featx\"\n".into(), doc: b"{\"id\": \"abc\"}".to_vec(), features: Some(vec![]) });
      pool.push(Call { kind: "json".into(), schema: "root = { id ^ => label, * tstr => any }\nlabel = int\n".into(), doc: b"{\"id\": \"abc\"}".to_vec(), features: None });
    }
    6 => {
      // a call that panics today (caught by the caller, as a server would) before and between ordinary ones:
      // whatever the unwinding left behind (a poisoned lock, a half-updated table) must not change later answers
      origin = "after-panic".to_string();
      out.probe("pool_after_panic");
      pool.push(Call { kind: "json".into(), schema: "t = [ * r ]\nr = { x y: text }\n".into(), doc: b"[{\"x\":\"a\"}]".to_vec(), features: None });
      let doc = gen_doc(&mut rw, &dcfg, 0);
      let mut scfg = SchemaCfg::swarm(&mut rk);
      scfg.hazards = false;
      let mut g = SchemaGen::new(&mut rw, scfg);
      let root = g.ty(&doc, 0);
      let schema = g.finish(root);
      let bad = perturb(&mut rw, &dcfg, &doc);
      for d in [&doc, &bad] {
        pool.push(Call { kind: "json".into(), schema: schema.clone(), doc: to_json(d).into_bytes(), features: None });
        pool.push(Call { kind: "cbor".into(), schema: schema.clone(), doc: to_cbor_min(d), features: None });
      }
      let (lit, docs) = *rw.pick(REGEX_LITERALS);
      pool.push(Call { kind: "json".into(), schema: format!("root = tstr .regexp {}\n", cddl_text_literal(lit)), doc: jstr(docs[0]), features: None });
      pool.push(Call { kind: "json".into(), schema: "root = { ? u: uri, ? d: tdate }\n".into(), doc: b"{\"u\":\"urn:a:b\",\"d\":\"2020-01-01T00:00:00Z\"}".to_vec(), features: None });
    }
    9 => {
      // reference structure: chains and cycles of plain rule references of seeded length, reached from the
      // root directly, through a choice, under a map key, as an array element: the validators' own
      // recursion guard and alias resolution build per-call name sets whose content must not leak into
      // the response in an order that changes from call to call
      origin = "reference-structure".to_string();
      out.probe("pool_reference_structure");
      for _ in 0..rw.range(1, 3) {
        let k = rw.range(1, 6);
        let pre = *rw.pick(&["c", "rule-", "n_", "x"]);
        let cyclic = rw.chance(2, 3);
        let mut schema = String::new();
        let (head, docs): (String, Vec<&str>) = match rw.below(6) {
          0 => (format!("root = {}0\n", pre), vec!["1", "\"s\""]),
          1 => (format!("root = int / {}0\n", pre), vec!["1", "\"s\"", "null"]),
          2 => (format!("root = {{ k: {}0 }}\n", pre), vec!["{\"k\":1}", "{\"k\":\"s\"}", "{}"]),
          3 => (format!("root = [ {}0 ]\n", pre), vec!["[1]", "[\"s\"]", "[]"]),
          4 => (format!("root = [* {}0]\n", pre), vec!["[1,2]", "[\"s\",1]", "[]"]),
          _ => (format!("root = {{ * tstr => {}0 }}\n", pre), vec!["{\"a\":1,\"b\":2}", "{\"a\":\"s\"}", "{}"]),
        };
        schema.push_str(&head);
        for i in 0..k {
          let next = if i + 1 < k {
            format!("{}{}", pre, i + 1)
          } else if cyclic {
            format!("{}{}", pre, rw.below(k))
          } else {
            rw.pick(&["int", "tstr", "[int]", "{ a: int }"]).to_string()
          };
          if rw.chance(1, 4) {
            schema.push_str(&format!("{}{} = {} / {}\n", pre, i, rw.pick(&["bool", "nil", "float"]), next));
          } else {
            schema.push_str(&format!("{}{} = {}\n", pre, i, next));
          }
        }
        for d in docs {
          pool.push(Call { kind: "json".into(), schema: schema.clone(), doc: d.as_bytes().to_vec(), features: None });
          if let Ok(v) = serde_json::from_str::<serde_json::Value>(d) {
            let mut b = Vec::new();
            if ciborium::ser::into_writer(&v, &mut b).is_ok() {
              pool.push(Call { kind: "cbor".into(), schema: schema.clone(), doc: b, features: None });
            }
          }
        }
      }
    }
    _ => {
      // one AST shared by reference between clients that build their own validators on it
      origin = "shared-ast".to_string();
      out.probe("pool_shared_ast");
      shared = true;
      let doc = gen_doc(&mut rw, &dcfg, 0);
      let mut scfg = SchemaCfg::swarm(&mut rk);
      scfg.hazards = false;
      let mut g = SchemaGen::new(&mut rw, scfg);
      let root = g.ty(&doc, 0);
      let schema = g.finish(root);
      let f = rk.pick(&feats_opts).clone();
      for _ in 0..rw.range(2, 4) {
        let d = if rw.coin() { vary(&mut rw, &dcfg, &doc) } else { perturb(&mut rw, &dcfg, &doc) };
        pool.push(Call { kind: "json".into(), schema: schema.clone(), doc: to_json(&d).into_bytes(), features: f.clone() });
        let mut b = Vec::new();
        to_cbor(&d, &mut b, &enc, &mut rw);
        pool.push(Call { kind: "cbor".into(), schema: schema.clone(), doc: b, features: f.clone() });
      }
    }
  }
  if pool.is_empty() {
    pool.push(Call { kind: "json".into(), schema: "root = int\n".into(), doc: b"1".to_vec(), features: None });
  }
  // JSON text for a "json" call must be UTF-8 (the entry point takes &str)
  pool.retain(|c| c.kind == "cbor" || std::str::from_utf8(&c.doc).is_ok());
  (pool, shared, origin)
}

pub fn build_world(seed: u64, idx: u64, out: &mut RunOut) -> World {
  let (pool, shared_ast, origin) = build_pool(seed, idx, out);
  let mut rs = Rng::stream(seed, "c14", idx, "scheduler");
  let clients = rs.range(1, 4);
  // every client owns a sequence of calls; a call may be issued several times, by several clients
  let steps = rs.range(pool.len().min(4), (2 * pool.len()).min(24).max(4));
  let mut history = Vec::new();
  for _ in 0..steps {
    history.push((rs.below(clients), rs.below(pool.len())));
  }
  // make sure every pool entry is called at least once
  for k in 0..pool.len() {
    if !history.iter().any(|h| h.1 == k) {
      let at = rs.below(history.len() + 1);
      history.insert(at, (rs.below(clients), k));
    }
  }
  let mut ref_order: Vec<usize> = (0..pool.len()).collect();
  rs.shuffle(&mut ref_order);
  World { pool, history, clients, shared_ast, ref_order, origin }
}

// ------------------------------------------------------------------------------------------------
// oracles

/// Does `loc` ("" or /seg/seg) resolve to a node of `doc`? Object keys may contain '/', so every
/// segmentation is tried; a segment is an object key or an array index.
pub fn location_resolves(doc: &serde_json::Value, loc: &str) -> bool {
  if loc.is_empty() {
    return true;
  }
  if !loc.starts_with('/') {
    return false;
  }
  let rest = &loc[1..];
  match doc {
    serde_json::Value::Object(m) => {
      for (k, v) in m {
        if rest == k {
          return true;
        }
        if rest.starts_with(k.as_str()) && rest[k.len()..].starts_with('/') && location_resolves(v, &rest[k.len()..]) {
          return true;
        }
      }
      false
    }
    serde_json::Value::Array(a) => {
      let (seg, tail) = match rest.find('/') {
        Some(p) => (&rest[..p], &rest[p..]),
        None => (rest, ""),
      };
      match seg.parse::<usize>() {
        Ok(i) if i < a.len() => location_resolves(&a[i], tail),
        _ => false,
      }
    }
    _ => false,
  }
}

/// Invariants 2-4 on one response. `schema_ok` / `doc_ok` come from independent parses.
fn check_response(c: &Call, r: &Resp) -> Option<(String, String, String)> {
  if r.kind == "validation" && r.list.is_empty() {
    return Some(("empty-validation-list".into(), c.kind.clone(), "Err(Validation(list)) with an empty list".into()));
  }
  if c.kind == "fmt" || r.kind == "skipped" || r.kind == "panic" {
    return None;
  }
  let schema_ok = guarded(|| cddl::cddl_from_str(&c.schema, false).is_ok()).unwrap_or(false);
  let doc_ok = match c.kind.as_str() {
    "json" => serde_json::from_slice::<serde_json::Value>(&c.doc).is_ok(),
    "cbor" => crate::cborref::ref_decode(&c.doc).is_ok(),
    // the CSV reader is flexible: every &str is a CSV document
    _ => true,
  };
  let expected = if !schema_ok {
    "cddl"
  } else if !doc_ok {
    "docparse"
  } else {
    "verdict"
  };
  let got = match r.kind.as_str() {
    "cddl" => "cddl",
    "docparse" => "docparse",
    _ => "verdict",
  };
  if expected != got {
    return Some((
      "error-kind".into(),
      format!("{}:expected-{}-got-{}", c.kind, expected, r.kind),
      format!("schema well-formed: {}, document well-formed: {}, reported kind: {} ({})", schema_ok, doc_ok, r.kind, r.text.chars().take(120).collect::<String>()),
    ));
  }
  if c.kind == "json" && r.kind == "validation" {
    if let Ok(doc) = serde_json::from_slice::<serde_json::Value>(&c.doc) {
      for e in &r.list {
        if !location_resolves(&doc, &e.0) {
          return Some(("bad-location".into(), "json".into(), format!("error location {:?} does not resolve in the document (reason: {})", e.0, e.1.chars().take(120).collect::<String>())));
        }
      }
    }
  }
  None
}

/// Simulated clients that persist for the life of the child process (thread creation is as expensive as
/// fork in this sandbox). Each is a real thread with its own thread-locals and hash keys; the coordinator
/// hands exactly one of them one call at a time and waits for the response: that is the baton.
struct Client {
  tx: Mutex<std::sync::mpsc::Sender<Call>>,
  rx: Mutex<std::sync::mpsc::Receiver<Resp>>,
}

static CLIENTS: std::sync::OnceLock<Vec<Client>> = std::sync::OnceLock::new();

fn clients() -> &'static Vec<Client> {
  CLIENTS.get_or_init(|| {
    let was = crate::alloc::is_armed();
    crate::alloc::disarm();
    let mut v = Vec::new();
    for cl in 0..4 {
      let (tx, crx) = std::sync::mpsc::channel::<Call>();
      let (ctx, rx) = std::sync::mpsc::channel::<Resp>();
      std::thread::Builder::new()
        .stack_size(STACK_BYTES)
        .name(format!("client-{}", cl))
        .spawn(move || {
          crate::alloc::set_subject(true);
          while let Ok(c) = crx.recv() {
            let r = exec_call(&c);
            if ctx.send(r).is_err() {
              break;
            }
          }
        })
        .expect("spawn client");
      v.push(Client { tx: Mutex::new(tx), rx: Mutex::new(rx) });
    }
    if was {
      crate::alloc::rearm();
    }
    v
  })
}

pub struct HistoryOut {
  pub responses: Vec<Resp>,
  pub violations: Vec<Violation>,
  pub refs_missing: u64,
  pub calls: u64,
}

/// Execute the history of `w` on simulated clients under the baton scheduler and check every response.
pub fn exec_history(w: &World) -> HistoryOut {
  let mut out = HistoryOut { responses: Vec::new(), violations: Vec::new(), refs_missing: 0, calls: 0 };
  if w.pool.is_empty() || w.history.is_empty() {
    return out;
  }
  // references: the pool entries the history uses, evaluated in another process (a grandchild of the
  // pristine copy) in an order chosen independently of the history. The first one evaluated there is the
  // call made alone in a fresh process; the others differ from the history in what ran before them.
  let mut refs: Vec<Option<Resp>> = vec![None; w.pool.len()];
  let mut order: Vec<usize> = w.ref_order.iter().cloned().filter(|k| *k < w.pool.len() && w.history.iter().any(|h| h.1 == *k)).collect();
  for (_, k) in &w.history {
    if *k < w.pool.len() && !order.contains(k) {
      order.push(*k);
    }
  }
  if std::env::var("VERIF_C14_NOZYG").is_err() {
    let req = json!({"calls": order.iter().map(|k| w.pool[*k].to_json()).collect::<Vec<_>>()});
    match zygote::ask(&req) {
      Some(v) => {
        for (i, k) in order.iter().enumerate() {
          if let Some(r) = v["resps"].get(i) {
            refs[*k] = Some(Resp::from_json(r));
          }
        }
      }
      None => out.refs_missing += 1,
    }
  }
  // the shared AST (parsed once, by the coordinating thread)
  let shared_schema = w.pool[0].schema.clone();
  let shared_ast = if w.shared_ast { guarded(|| cddl::cddl_from_str(&shared_schema, false).ok()).ok().flatten() } else { None };
  let clients = w.clients.max(1);
  if shared_ast.is_none() {
    // persistent clients
    let pool_clients = self::clients();
    for (step, (cl, k)) in w.history.iter().enumerate() {
      if *k >= w.pool.len() {
        continue;
      }
      let cl = *cl % clients % pool_clients.len();
      let c = &w.pool[*k];
      let r = {
        let ok = pool_clients[cl].tx.lock().unwrap().send(c.clone()).is_ok();
        if ok {
          pool_clients[cl].rx.lock().unwrap().recv().unwrap_or(Resp { kind: "client-lost".into(), list: vec![], text: String::new() })
        } else {
          Resp { kind: "client-lost".into(), list: vec![], text: String::new() }
        }
      };
      judge(w, step, cl, *k, &r, &refs, &order, &mut out);
      out.responses.push(r);
    }
    return out;
  }
  // shared AST: scoped client threads that borrow it. baton: -1 = scheduler, k = client k may execute exactly one call
  let turn: Mutex<(i64, usize, bool)> = Mutex::new((-1, 0, false)); // (whose turn, call index, stop)
  let cv = Condvar::new();
  let results: Mutex<Vec<Resp>> = Mutex::new(Vec::new());
  std::thread::scope(|sc| {
    for cl in 0..clients {
      let turn = &turn;
      let cv = &cv;
      let results = &results;
      let pool = &w.pool;
      let shared_ast = shared_ast.as_ref();
      std::thread::Builder::new()
        .stack_size(STACK_BYTES)
        .name(format!("client-{}", cl))
        .spawn_scoped(sc, move || {
          crate::alloc::set_subject(true);
          loop {
            let k;
            {
              let mut t = turn.lock().unwrap();
              while t.0 != cl as i64 && !t.2 {
                t = cv.wait(t).unwrap();
              }
              if t.2 {
                return;
              }
              k = t.1;
            }
            let c = &pool[k];
            let r = match shared_ast {
              Some(ast) if c.kind == "json" || c.kind == "cbor" => exec_call_shared(ast, c),
              _ => exec_call(c),
            };
            results.lock().unwrap().push(r);
            let mut t = turn.lock().unwrap();
            t.0 = -1;
            cv.notify_all();
          }
        })
        .expect("spawn client");
    }
    for (step, (cl, k)) in w.history.iter().enumerate() {
      if *k >= w.pool.len() {
        continue;
      }
      let cl = *cl % clients;
      {
        let mut t = turn.lock().unwrap();
        t.0 = cl as i64;
        t.1 = *k;
        cv.notify_all();
        while t.0 != -1 {
          t = cv.wait(t).unwrap();
        }
      }
      let r = results.lock().unwrap().last().cloned().unwrap();
      judge(w, step, cl, *k, &r, &refs, &order, &mut out);
      out.responses.push(r);
    }
    let mut t = turn.lock().unwrap();
    t.2 = true;
    cv.notify_all();
  });
  out
}

/// Invariants on the response `r` to step `step` of the history.
fn judge(w: &World, step: usize, cl: usize, k: usize, r: &Resp, refs: &[Option<Resp>], order: &[usize], out: &mut HistoryOut) {
  out.calls += 1;
  let c = &w.pool[k];
  // invariant 1
  if let Some(rf) = &refs[k] {
    // a shared-AST call that fails document parsing words its error differently from the string entry point
    let comparable = !(w.shared_ast && r.kind == "docparse");
    if comparable && rf != r && rf.kind != "panic" {
      let mut mw = w.clone();
      mw.history.truncate(step + 1);
      out.violations.push(Violation {
        class: "history-dependence".into(),
        signature: format!("{}:{}->{}", c.kind, rf.kind, r.kind),
        world: mw.to_json(),
        detail: format!(
          "step {} (client {}, call {} {}): response {} differs from the response to the same call in a fresh process ({} there): {}",
          step,
          cl,
          k,
          c.kind,
          r.brief(),
          match order.iter().position(|x| *x == k) {
            Some(0) => "made alone, first".to_string(),
            Some(n) => format!("made after {} other calls, in another order", n),
            None => "?".to_string(),
          },
          rf.brief()
        ),
      });
    }
  }
  // invariants 2-4
  if let Some((class, sig, detail)) = check_response(c, r) {
    let mw = World { pool: vec![c.clone()], history: vec![(0, 0)], clients: 1, shared_ast: false, ref_order: vec![0], origin: w.origin.clone() };
    out.violations.push(Violation { class, signature: sig, world: mw.to_json(), detail: format!("call {} {}: {}", k, c.kind, detail) });
  }
}

impl Check for C14 {
  fn name(&self) -> &'static str {
    "c14"
  }
  fn default_budget(&self) -> (usize, usize) {
    (usize::MAX, usize::MAX)
  }
  fn zygote_eval(&self) -> Option<fn(&Value) -> Value> {
    Some(zygote_eval)
  }

  fn run(&self, seed: u64, idx: u64, _tier: Tier) -> RunOut {
    let mut out = RunOut::default();
    let w = build_world(seed, idx, &mut out);
    if trace_on() {
      trace(&format!("world {}", w.to_json()));
    }
    let h = exec_history(&w);
    let mut fp = fnv(b"c14");
    for c in &w.pool {
      fp = fnv_add(fp, c.to_json().to_string().as_bytes());
    }
    for (cl, k) in &w.history {
      fp = fnv_add(fp, &[*cl as u8, *k as u8]);
    }
    let mut kinds = std::collections::BTreeSet::new();
    for r in &h.responses {
      fp = fnv_add(fp, &r.digest().to_le_bytes());
      kinds.insert(r.kind.clone());
      match r.kind.as_str() {
        "ok" => out.probe("resp_ok"),
        "validation" => out.probe("resp_validation"),
        "cddl" => out.probe("resp_schema_error"),
        "docparse" => out.probe("resp_document_error"),
        "fmt" => out.probe("resp_formatted"),
        "panic" => out.probe("resp_panic_caught"),
        _ => out.probe("resp_other_kind"),
      }
    }
    out.ops = h.calls;
    out.fault_n("call_after_other_calls", h.calls.saturating_sub(1));
    if w.clients > 1 {
      out.fault_n("call_on_another_client_thread", h.calls);
    }
    if w.shared_ast {
      out.fault("shared_ast_run");
    }
    if h.refs_missing > 0 {
      out.probe("reference_unavailable");
    }
    if !zygote::available() {
      out.probe("ZYGOTE_MISSING");
    }
    out.nontrivial = kinds.len() >= 2 && h.calls >= 3;
    out.fp = fp;
    out.violations = h.violations;
    out.sample = Some(json!({
      "origin": w.origin, "clients": w.clients, "shared_ast": w.shared_ast,
      "history": w.history.iter().map(|(c, k)| format!("c{}:call{}", c, k)).collect::<Vec<_>>(),
      "pool": w.pool.iter().map(|c| json!({"kind": c.kind, "features": c.features, "schema": c.schema.chars().take(160).collect::<String>(), "doc": String::from_utf8_lossy(&c.doc).chars().take(80).collect::<String>()})).collect::<Vec<_>>(),
      "responses": h.responses.iter().map(|r| r.brief()).collect::<Vec<_>>(),
    }));
    out
  }

  fn exec_world(&self, world: &Value) -> Vec<Violation> {
    let w = World::from_json(world);
    exec_history(&w).violations
  }
}

// ------------------------------------------------------------------------------------------------
// minimisation: drop history steps (and with them clients and pool entries), keeping class + signature

pub fn minimise(v: &Violation, secs: u64) -> Violation {
  let w = World::from_json(&v.world);
  let mut budget = Budget::new(150, secs);
  let class = v.class.clone();
  let sig = v.signature.clone();
  let holds = |h: &[(usize, usize)]| -> bool {
    let mut c = w.clone();
    c.history = h.to_vec();
    let r = exec_isolated("c14", &c.to_json(), 30);
    r.violations.iter().any(|x| x.class == class && x.signature == sig)
  };
  if !holds(&w.history) {
    return v.clone();
  }
  let mut pred = |h: &[(usize, usize)]| holds(h);
  let small = ddmin(w.history.clone(), &mut budget, &mut pred);
  // compact: renumber the pool entries and clients that are still used
  let mut used: Vec<usize> = small.iter().map(|h| h.1).collect();
  used.sort();
  used.dedup();
  let mut cls: Vec<usize> = small.iter().map(|h| h.0).collect();
  cls.sort();
  cls.dedup();
  let mut m = w.clone();
  if !w.shared_ast {
    m.pool = used.iter().map(|k| w.pool[*k].clone()).collect();
    m.ref_order = w.ref_order.iter().filter_map(|k| used.iter().position(|x| x == k)).collect();
    m.history = small.iter().map(|(c, k)| (cls.iter().position(|x| x == c).unwrap(), used.iter().position(|x| x == k).unwrap())).collect();
    m.clients = cls.len().max(1);
    // one client is enough?
    let mut one = m.clone();
    one.clients = 1;
    one.history = one.history.iter().map(|(_, k)| (0, *k)).collect();
    let r = exec_isolated("c14", &one.to_json(), 30);
    if r.violations.iter().any(|x| x.class == class && x.signature == sig) {
      m = one;
    }
  } else {
    m.history = small;
  }
  let r = exec_isolated("c14", &m.to_json(), 30);
  match r.violations.iter().find(|x| x.class == class && x.signature == sig) {
    Some(x) => Violation { class, signature: sig, world: m.to_json(), detail: x.detail.clone() },
    None => v.clone(),
  }
}
