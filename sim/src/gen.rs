//! Workload generators: documents, schemas that (mostly) describe them, purely grammar-directed schemas,
//! rule-graph hazards (alias chains, cycles, generic self-application), nesting and size families.
//! Everything is a function of the `Rng` handed in; nothing here reads a clock or iterates a hash map.

use crate::cborref::{head, EncCfg};
use crate::rng::Rng;

#[derive(Clone, Debug, PartialEq)]
pub enum Doc {
  Null,
  Bool(bool),
  Int(i128),
  Float(f64),
  Text(String),
  Bytes(Vec<u8>),
  Array(Vec<Doc>),
  Map(Vec<(Doc, Doc)>),
  Tag(u64, Box<Doc>),
}

// ------------------------------------------------------------------------------------------------
// documents

pub const INT_EDGES: &[i128] = &[
  0,
  1,
  -1,
  2,
  10,
  23,
  24,
  255,
  256,
  -256,
  -257,
  1000,
  65535,
  65536,
  1_000_000,
  2147483647,
  -2147483648,
  4294967295,
  4294967296,
  9007199254740991,
  9007199254740992,
  9007199254740993,
  -9007199254740992,
  9223372036854775807,
  9223372036854775808,
  -9223372036854775808,
  -9223372036854775809,
  18446744073709551615,
  -18446744073709551616,
  1577836800,
  253402300800,
  -62135596801,
];

pub const FLOAT_EDGES: &[f64] = &[
  0.0, -0.0, 1.0, -1.0, 0.5, 1.5, 0.1, 3.14, 1e10, 1e21, 1e300, -1e300, 1e-300, 5e-324, 65504.0, 65505.0, 16777216.0, 16777217.0,
  3.4028234663852886e38, 1.7976931348623157e308, 9007199254740992.0, 9.223372036854776e18, 1.8446744073709552e19, 1577836800.5,
];

pub const TEXT_POOL: &[&str] = &[
  "",
  "a",
  "abc",
  "hello world",
  "key",
  "value",
  "x",
  "0",
  "12",
  "-1",
  "1.5",
  "true",
  "null",
  "é",
  "水",
  "😀",
  "a\"b",
  "a\\b",
  "line\nbreak",
  "tab\there",
  "\u{0}",
  "https://example.com/a/b?q=1#frag",
  "http://[::1]:8080/",
  "urn:ietf:rfc:8610",
  "mailto:a@example.com",
  "::",
  ":",
  "//",
  "a:b",
  "did:example:123456789abcdefghi",
  "2020-01-01T00:00:00Z",
  "1985-04-12T23:20:50.52Z",
  "9999-99-99T99:99:99Z",
  "2020-02-30T25:61:61+99:99",
  "2020-01-01",
  "aGVsbG8",
  "aGVsbG8=",
  "SGVsbG8gV29ybGQ_-w",
  "!!!!",
  "68656c6c6f",
  "68656C6C6F",
  "6",
  "zz",
  "%69VD92EX0",
  "MFRGG===",
  "(a+)+$",
  "[a-z",
  "a{1,99999}",
  "\\",
  "^$",
  "{\"a\":1}",
  "[1,2,3]",
  "rule = \"a\"",
  "%d",
  "1e400",
  "NaN",
  "inf",
  "-inf",
  "Infinity",
  "0x10",
  "00",
  "+1",
  "18446744073709551616",
  "-9223372036854775809",
  "text/plain",
  "MIME-Version: 1.0\r\n\r\nbody",
  "a,b",
  "a\r\nb",
];

#[derive(Clone, Debug)]
pub struct DocCfg {
  pub max_depth: usize,
  pub max_children: usize,
  /// allow byte strings, tags, non-text map keys (rendered approximately in JSON)
  pub cbor_only: bool,
  pub floats: bool,
  pub edge_numbers: bool,
  pub long_strings: bool,
}

impl DocCfg {
  pub fn swarm(r: &mut Rng) -> DocCfg {
    DocCfg {
      max_depth: r.range(1, 4),
      max_children: r.range(1, 6),
      cbor_only: r.chance(1, 2),
      floats: r.chance(2, 3),
      edge_numbers: r.chance(2, 3),
      long_strings: r.chance(1, 4),
    }
  }
}

pub fn gen_int(r: &mut Rng, cfg: &DocCfg) -> i128 {
  if cfg.edge_numbers && r.chance(1, 3) {
    *r.pick(INT_EDGES)
  } else if r.chance(1, 6) {
    let m = (r.next_u64() >> r.below(64)) as i128;
    if r.coin() {
      m
    } else {
      -m - 1
    }
  } else {
    r.below(200) as i128 - 50
  }
}

/// A text whose UTF-8 length is near a power of two (8 .. 4096) with a 2-4 byte character that starts up to
/// three bytes before the boundary: code that cuts, echoes, chunks or indexes text by byte offsets meets a
/// character that straddles its limit.
pub fn boundary_doc_text(r: &mut Rng) -> String {
  let b = *r.pick(&[8usize, 16, 32, 64, 64, 64, 128, 256, 512, 1024, 4096]);
  let atom = *r.pick(&["é", "漢", "€", "😀", "\u{7ff}", "\u{10ffff}"]);
  let start = b - r.range(1, atom.len().max(2) - 1).min(b);
  let filler = *r.pick(&['7', 'a', 'Z', ' ', '-']);
  let mut s = String::new();
  while s.len() < start {
    s.push(filler);
  }
  s.push_str(atom);
  let tail = r.below(b / 2 + 2);
  for _ in 0..tail {
    s.push(filler);
  }
  s
}

pub fn gen_text(r: &mut Rng, cfg: &DocCfg) -> String {
  if cfg.long_strings && r.chance(1, 4) {
    return boundary_doc_text(r);
  }
  if cfg.long_strings && r.chance(1, 4) {
    let unit = *r.pick::<&str>(TEXT_POOL);
    let n = r.range(2, 40);
    return unit.repeat(n);
  }
  match r.below(6) {
    0 => format!("{}{}", r.pick::<&str>(TEXT_POOL), r.pick::<&str>(TEXT_POOL)),
    _ => r.pick::<&str>(TEXT_POOL).to_string(),
  }
}

pub fn gen_bytes(r: &mut Rng) -> Vec<u8> {
  match r.below(4) {
    0 => vec![],
    1 => r.pick::<&str>(TEXT_POOL).as_bytes().to_vec(),
    _ => {
      let n = r.below(12);
      (0..n).map(|_| r.byte()).collect()
    }
  }
}

pub fn gen_scalar(r: &mut Rng, cfg: &DocCfg) -> Doc {
  let w = [3, 2, 8, if cfg.floats { 4 } else { 0 }, 8, if cfg.cbor_only { 3 } else { 0 }];
  match r.weighted(&w) {
    0 => Doc::Null,
    1 => Doc::Bool(r.coin()),
    2 => Doc::Int(gen_int(r, cfg)),
    3 => Doc::Float(if r.coin() { *r.pick(FLOAT_EDGES) } else { (r.below(2000) as f64 - 1000.0) / 8.0 }),
    4 => Doc::Text(gen_text(r, cfg)),
    _ => Doc::Bytes(gen_bytes(r)),
  }
}

const KEY_POOL: &[&str] = &["a", "b", "c", "id", "name", "type", "value", "key", "x-y", "n1", "@context", "data", "created", "k"];

pub fn gen_doc(r: &mut Rng, cfg: &DocCfg, depth: usize) -> Doc {
  if depth >= cfg.max_depth {
    return gen_scalar(r, cfg);
  }
  let w = [5, 5, 5, if cfg.cbor_only { 2 } else { 0 }];
  match r.weighted(&w) {
    0 => gen_scalar(r, cfg),
    1 => {
      let n = r.below(cfg.max_children + 1);
      let homogeneous = r.chance(1, 3);
      let mut v = Vec::new();
      if homogeneous && n > 0 {
        let proto = gen_doc(r, cfg, depth + 1);
        for _ in 0..n {
          v.push(vary(r, cfg, &proto));
        }
      } else {
        for _ in 0..n {
          v.push(gen_doc(r, cfg, depth + 1));
        }
      }
      Doc::Array(v)
    }
    2 => {
      let n = r.below(cfg.max_children + 1);
      let mut v: Vec<(Doc, Doc)> = Vec::new();
      for i in 0..n {
        let k = if cfg.cbor_only && r.chance(1, 4) {
          Doc::Int(i as i128 + if r.coin() { 0 } else { -3 })
        } else {
          Doc::Text(if r.chance(1, 5) { gen_text(r, cfg) } else { r.pick::<&str>(KEY_POOL).to_string() })
        };
        if v.iter().any(|(k2, _)| *k2 == k) {
          continue;
        }
        v.push((k, gen_doc(r, cfg, depth + 1)));
      }
      Doc::Map(v)
    }
    _ => {
      let t = *r.pick(&[0u64, 1, 2, 3, 4, 5, 21, 22, 23, 24, 32, 33, 34, 35, 36, 37, 100, 55799, 65536]);
      let inner = match t {
        0 => Doc::Text(r.pick(&["2020-01-01T00:00:00Z", "not a date", "1985-04-12T23:20:50.52Z", ""]).to_string()),
        1 => {
          if r.coin() {
            Doc::Int(gen_int(r, cfg))
          } else {
            Doc::Float(*r.pick(FLOAT_EDGES))
          }
        }
        2 | 3 => Doc::Bytes(gen_bytes(r)),
        4 | 5 => Doc::Array(vec![Doc::Int(gen_int(r, cfg)), Doc::Int(gen_int(r, cfg))]),
        24 => Doc::Bytes(to_cbor_min(&gen_doc(r, cfg, depth + 1))),
        32 => Doc::Text(r.pick(&["https://example.com/", "::", "a b", ""]).to_string()),
        _ => gen_doc(r, cfg, depth + 1),
      };
      Doc::Tag(t, Box::new(inner))
    }
  }
}

/// A document of the same shape as `proto` with different leaves.
pub fn vary(r: &mut Rng, cfg: &DocCfg, proto: &Doc) -> Doc {
  match proto {
    Doc::Null => Doc::Null,
    Doc::Bool(_) => Doc::Bool(r.coin()),
    Doc::Int(_) => Doc::Int(gen_int(r, cfg)),
    Doc::Float(_) => Doc::Float(*r.pick(FLOAT_EDGES)),
    Doc::Text(_) => Doc::Text(gen_text(r, cfg)),
    Doc::Bytes(_) => Doc::Bytes(gen_bytes(r)),
    Doc::Array(a) => Doc::Array(a.iter().map(|x| vary(r, cfg, x)).collect()),
    Doc::Map(m) => Doc::Map(m.iter().map(|(k, v)| (k.clone(), vary(r, cfg, v))).collect()),
    Doc::Tag(t, x) => Doc::Tag(*t, Box::new(vary(r, cfg, x))),
  }
}

/// A small random edit of a document (so that a schema inferred from the original rejects it somewhere deep).
pub fn perturb(r: &mut Rng, cfg: &DocCfg, d: &Doc) -> Doc {
  match d {
    Doc::Array(a) if !a.is_empty() && r.chance(2, 3) => {
      let mut a = a.clone();
      let i = r.below(a.len());
      match r.below(4) {
        0 => {
          a.remove(i);
        }
        1 => a.insert(i, gen_scalar(r, cfg)),
        2 => a.push(gen_scalar(r, cfg)),
        _ => a[i] = perturb(r, cfg, &a[i]),
      }
      Doc::Array(a)
    }
    Doc::Map(m) if !m.is_empty() && r.chance(2, 3) => {
      let mut m = m.clone();
      let i = r.below(m.len());
      match r.below(4) {
        0 => {
          m.remove(i);
        }
        1 => m.push((Doc::Text(format!("extra{}", r.below(3))), gen_scalar(r, cfg))),
        2 => m[i].0 = Doc::Text(gen_text(r, cfg)),
        _ => m[i].1 = perturb(r, cfg, &m[i].1),
      }
      Doc::Map(m)
    }
    Doc::Tag(t, x) if r.coin() => Doc::Tag(*t, Box::new(perturb(r, cfg, x))),
    // a text stays a text but no longer the one the schema was inferred from (so that text controls
    // and literals reject it), half of the time one with a character straddling a power-of-two offset
    Doc::Text(_) if r.coin() => Doc::Text(if r.coin() { boundary_doc_text(r) } else { gen_text(r, cfg) }),
    _ => gen_scalar(r, cfg),
  }
}

fn json_escape(s: &str, out: &mut String) {
  out.push('"');
  for c in s.chars() {
    match c {
      '"' => out.push_str("\\\""),
      '\\' => out.push_str("\\\\"),
      '\n' => out.push_str("\\n"),
      '\r' => out.push_str("\\r"),
      '\t' => out.push_str("\\t"),
      c if (c as u32) < 0x20 => out.push_str(&format!("\\u{:04x}", c as u32)),
      c => out.push(c),
    }
  }
  out.push('"');
}

fn b64url(b: &[u8]) -> String {
  const T: &[u8; 64] = b"ABCDEFGHIJKLMNOPQRSTUVWXYZabcdefghijklmnopqrstuvwxyz0123456789-_";
  let mut s = String::new();
  for c in b.chunks(3) {
    let n = (c[0] as u32) << 16 | (*c.get(1).unwrap_or(&0) as u32) << 8 | *c.get(2).unwrap_or(&0) as u32;
    s.push(T[(n >> 18) as usize & 63] as char);
    s.push(T[(n >> 12) as usize & 63] as char);
    if c.len() > 1 {
      s.push(T[(n >> 6) as usize & 63] as char);
    }
    if c.len() > 2 {
      s.push(T[n as usize & 63] as char);
    }
  }
  s
}

pub fn to_json(d: &Doc) -> String {
  let mut s = String::new();
  fn go(d: &Doc, s: &mut String) {
    match d {
      Doc::Null => s.push_str("null"),
      Doc::Bool(b) => s.push_str(if *b { "true" } else { "false" }),
      Doc::Int(n) => s.push_str(&n.to_string()),
      Doc::Float(f) => {
        if f.is_finite() {
          let t = format!("{:?}", f);
          s.push_str(&t);
        } else {
          s.push_str("0.0");
        }
      }
      Doc::Text(t) => json_escape(t, s),
      Doc::Bytes(b) => json_escape(&b64url(b), s),
      Doc::Array(a) => {
        s.push('[');
        for (i, x) in a.iter().enumerate() {
          if i > 0 {
            s.push(',');
          }
          go(x, s);
        }
        s.push(']');
      }
      Doc::Map(m) => {
        s.push('{');
        for (i, (k, v)) in m.iter().enumerate() {
          if i > 0 {
            s.push(',');
          }
          match k {
            Doc::Text(t) => json_escape(t, s),
            other => {
              let mut t = String::new();
              go(other, &mut t);
              json_escape(t.trim_matches('"'), s);
            }
          }
          s.push(':');
          go(v, s);
        }
        s.push('}');
      }
      Doc::Tag(_, x) => go(x, s),
    }
  }
  go(d, &mut s);
  s
}

fn min_cfg() -> EncCfg {
  EncCfg {
    nonminimal: false,
    indefinite: false,
    chunk_strings: false,
    max_depth: 0,
    max_children: 0,
    floats: true,
    tags: true,
    simples: true,
    big_strings: false,
    boundary_strings: false,
  }
}

pub fn to_cbor_min(d: &Doc) -> Vec<u8> {
  let mut r = Rng::from_u64(0);
  let mut out = Vec::new();
  to_cbor(d, &mut out, &min_cfg(), &mut r);
  out
}

/// Encode with the writer's random encoding choices (non-minimal heads, indefinite containers).
pub fn to_cbor(d: &Doc, out: &mut Vec<u8>, cfg: &EncCfg, r: &mut Rng) {
  match d {
    Doc::Null => out.push(0xf6),
    Doc::Bool(b) => out.push(if *b { 0xf5 } else { 0xf4 }),
    Doc::Int(n) => {
      if *n >= 0 {
        if *n <= u64::MAX as i128 {
          head(out, 0, *n as u64, cfg, r);
        } else {
          // bignum
          out.push(0xc2);
          let b = n.to_be_bytes();
          let b: Vec<u8> = b.iter().cloned().skip_while(|x| *x == 0).collect();
          head(out, 2, b.len() as u64, cfg, r);
          out.extend_from_slice(&b);
        }
      } else {
        let m = -1 - *n;
        if m <= u64::MAX as i128 {
          head(out, 1, m as u64, cfg, r);
        } else {
          out.push(0xc3);
          let b = m.to_be_bytes();
          let b: Vec<u8> = b.iter().cloned().skip_while(|x| *x == 0).collect();
          head(out, 2, b.len() as u64, cfg, r);
          out.extend_from_slice(&b);
        }
      }
    }
    Doc::Float(f) => {
      let as32 = *f as f32;
      if cfg.nonminimal && r.chance(1, 2) || (as32 as f64).to_bits() != f.to_bits() {
        out.push(0xfb);
        out.extend_from_slice(&f.to_bits().to_be_bytes());
      } else {
        out.push(0xfa);
        out.extend_from_slice(&as32.to_bits().to_be_bytes());
      }
    }
    Doc::Text(s) => {
      if cfg.indefinite && cfg.chunk_strings && r.chance(1, 4) {
        out.push(0x7f);
        let cs: Vec<char> = s.chars().collect();
        let cut = if cs.is_empty() { 0 } else { r.below(cs.len() + 1) };
        for part in [&cs[..cut], &cs[cut..]] {
          let p: String = part.iter().collect();
          head(out, 3, p.len() as u64, cfg, r);
          out.extend_from_slice(p.as_bytes());
        }
        out.push(0xff);
      } else {
        head(out, 3, s.len() as u64, cfg, r);
        out.extend_from_slice(s.as_bytes());
      }
    }
    Doc::Bytes(b) => {
      if cfg.indefinite && cfg.chunk_strings && r.chance(1, 4) {
        out.push(0x5f);
        let cut = if b.is_empty() { 0 } else { r.below(b.len() + 1) };
        for part in [&b[..cut], &b[cut..]] {
          head(out, 2, part.len() as u64, cfg, r);
          out.extend_from_slice(part);
        }
        out.push(0xff);
      } else {
        head(out, 2, b.len() as u64, cfg, r);
        out.extend_from_slice(b);
      }
    }
    Doc::Array(a) => {
      let indef = cfg.indefinite && r.chance(1, 4);
      if indef {
        out.push(0x9f);
      } else {
        head(out, 4, a.len() as u64, cfg, r);
      }
      for x in a {
        to_cbor(x, out, cfg, r);
      }
      if indef {
        out.push(0xff);
      }
    }
    Doc::Map(m) => {
      let indef = cfg.indefinite && r.chance(1, 4);
      if indef {
        out.push(0xbf);
      } else {
        head(out, 5, m.len() as u64, cfg, r);
      }
      for (k, v) in m {
        to_cbor(k, out, cfg, r);
        to_cbor(v, out, cfg, r);
      }
      if indef {
        out.push(0xff);
      }
    }
    Doc::Tag(t, x) => {
      head(out, 6, *t, cfg, r);
      to_cbor(x, out, cfg, r);
    }
  }
}

/// CSV rendering of an array of arrays of scalars (anything else is stringified).
pub fn to_csv(d: &Doc, r: &mut Rng) -> String {
  let mut s = String::new();
  let rows: Vec<Doc> = match d {
    Doc::Array(a) => a.clone(),
    other => vec![other.clone()],
  };
  for row in rows {
    let fields: Vec<Doc> = match row {
      Doc::Array(a) => a,
      other => vec![other],
    };
    for (i, f) in fields.iter().enumerate() {
      if i > 0 {
        s.push(',');
      }
      let t = match f {
        Doc::Text(t) => t.clone(),
        Doc::Int(n) => n.to_string(),
        Doc::Float(x) => format!("{:?}", x),
        Doc::Bool(b) => b.to_string(),
        Doc::Null => String::new(),
        other => to_json(other),
      };
      if t.contains(',') || t.contains('"') || t.contains('\n') || t.contains('\r') || r.chance(1, 8) {
        s.push('"');
        s.push_str(&t.replace('"', "\"\""));
        s.push('"');
      } else {
        s.push_str(&t);
      }
    }
    s.push_str(if r.chance(1, 6) { "\r\n" } else { "\n" });
  }
  s
}

pub fn gen_csv_doc(r: &mut Rng, cfg: &DocCfg) -> Doc {
  let cols = r.range(1, 5);
  let rows = r.range(0, 6);
  let mut proto = Vec::new();
  for _ in 0..cols {
    proto.push(match r.below(4) {
      0 => Doc::Int(0),
      1 => Doc::Float(0.5),
      _ => Doc::Text(String::new()),
    });
  }
  let mut out = Vec::new();
  for _ in 0..rows {
    let mut row = Vec::new();
    for p in &proto {
      row.push(if r.chance(1, 10) { gen_scalar(r, cfg) } else { vary(r, cfg, p) });
    }
    if r.chance(1, 10) {
      row.pop();
    }
    out.push(Doc::Array(row));
  }
  Doc::Array(out)
}

// ------------------------------------------------------------------------------------------------
// schemas inferred from a document, with random abstraction

#[derive(Clone, Debug)]
pub struct SchemaCfg {
  pub hoist: bool,
  pub generics: bool,
  pub choices: bool,
  pub controls: bool,
  pub ranges: bool,
  pub occurrences: bool,
  pub groups: bool,
  pub sockets: bool,
  pub unwrap: bool,
  pub cuts: bool,
  pub literals: bool,
  pub enums: bool,
  pub features: bool,
  pub comments: bool,
  pub alias_chains: bool,
  /// deliberately cyclic / self-applied rule graphs
  pub hazards: bool,
  pub extra_rules: bool,
}

impl SchemaCfg {
  pub fn swarm(r: &mut Rng) -> SchemaCfg {
    SchemaCfg {
      hoist: r.chance(2, 3),
      generics: r.chance(1, 3),
      choices: r.chance(1, 2),
      controls: r.chance(1, 2),
      ranges: r.chance(1, 2),
      occurrences: r.chance(2, 3),
      groups: r.chance(1, 2),
      sockets: r.chance(1, 4),
      unwrap: r.chance(1, 4),
      cuts: r.chance(1, 4),
      literals: r.chance(1, 2),
      enums: r.chance(1, 4),
      features: r.chance(1, 5),
      comments: r.chance(1, 3),
      alias_chains: r.chance(1, 3),
      hazards: r.chance(1, 80),
      extra_rules: r.chance(1, 3),
    }
  }
  pub fn all(on: bool) -> SchemaCfg {
    SchemaCfg {
      hoist: on,
      generics: on,
      choices: on,
      controls: on,
      ranges: on,
      occurrences: on,
      groups: on,
      sockets: on,
      unwrap: on,
      cuts: on,
      literals: on,
      enums: on,
      features: on,
      comments: on,
      alias_chains: on,
      hazards: false,
      extra_rules: on,
    }
  }
}

pub struct SchemaGen<'r> {
  pub r: &'r mut Rng,
  pub cfg: SchemaCfg,
  pub rules: Vec<String>,
  next: usize,
  /// construct names used (reach probes)
  pub used: Vec<&'static str>,
}

pub fn cddl_text_literal(s: &str) -> String {
  let mut out = String::from("\"");
  for c in s.chars() {
    match c {
      '"' => out.push_str("\\\""),
      '\\' => out.push_str("\\\\"),
      '\n' => out.push_str("\\n"),
      '\r' => out.push_str("\\r"),
      '\t' => out.push_str("\\t"),
      c if (c as u32) < 0x20 || c == '\u{7f}' => out.push_str(&format!("\\u{:04x}", c as u32)),
      c => out.push(c),
    }
  }
  out.push('"');
  out
}

fn is_bareword(s: &str) -> bool {
  let mut cs = s.chars();
  match cs.next() {
    Some(c) if c.is_ascii_alphabetic() || c == '@' || c == '_' => {}
    _ => return false,
  }
  let b: Vec<char> = s.chars().collect();
  for (i, c) in b.iter().enumerate().skip(1) {
    if c.is_ascii_alphanumeric() || *c == '@' || *c == '_' || *c == '$' {
      continue;
    }
    if (*c == '-' || *c == '.') && i + 1 < b.len() && (b[i + 1].is_ascii_alphanumeric() || "@_$".contains(b[i + 1])) {
      continue;
    }
    return false;
  }
  true
}

const UNRELATED: &[&str] = &[
  "nil", "tstr", "int", "bool", "float", "bstr", "uint", "\"never\"", "9999", "[* int]", "{* tstr => any}", "null", "undefined", "#6.999(any)",
  "tdate", "uri", "-1", "1.5", "h'ff'", "number", "nint", "text", "bytes", "any",
];

impl<'r> SchemaGen<'r> {
  pub fn new(r: &'r mut Rng, cfg: SchemaCfg) -> SchemaGen<'r> {
    SchemaGen { r, cfg, rules: Vec::new(), next: 0, used: Vec::new() }
  }

  fn fresh(&mut self, prefix: &str) -> String {
    self.next += 1;
    format!("{}{}", prefix, self.next)
  }

  fn mark(&mut self, k: &'static str) {
    if !self.used.contains(&k) {
      self.used.push(k);
    }
  }

  /// Possibly hoist an expression into its own rule (through an alias chain / a generic wrapper).
  fn maybe_hoist(&mut self, expr: String) -> String {
    if !self.cfg.hoist || !self.r.chance(1, 3) {
      return expr;
    }
    let name = self.fresh("r");
    if self.cfg.generics && self.r.chance(1, 3) {
      self.mark("generic");
      let g = self.fresh("g");
      match self.r.below(3) {
        0 => {
          self.rules.push(format!("{}<T> = T", g));
          self.rules.push(format!("{} = {}<{}>", name, g, paren_if_choice(&expr)));
        }
        1 => {
          self.rules.push(format!("{}<T> = T / nil", g));
          self.rules.push(format!("{} = {}<{}>", name, g, paren_if_choice(&expr)));
        }
        _ => {
          self.rules.push(format!("{}<A, B> = A / B", g));
          let other = self.r.pick::<&str>(UNRELATED).to_string();
          self.rules.push(format!("{} = {}<{}, {}>", name, g, paren_if_choice(&expr), other));
        }
      }
      return name;
    }
    if self.cfg.alias_chains && self.r.chance(1, 3) {
      self.mark("alias_chain");
      let mid = self.fresh("alias");
      self.rules.push(format!("{} = {}", name, mid));
      self.rules.push(format!("{} = {}", mid, expr));
      return name;
    }
    if self.cfg.sockets && self.r.chance(1, 4) {
      self.mark("socket");
      let sock = format!("${}", self.fresh("sock"));
      self.rules.push(format!("{} /= {}", sock, expr));
      if self.r.coin() {
        let other = self.r.pick::<&str>(UNRELATED).to_string();
        self.rules.push(format!("{} /= {}", sock, other));
      }
      return sock;
    }
    if self.r.chance(1, 5) {
      // split into two alternates of the same rule
      self.mark("type_choice_alternate");
      let other = self.r.pick::<&str>(UNRELATED).to_string();
      self.rules.push(format!("{} = {}", name, other));
      self.rules.push(format!("{} /= {}", name, expr));
      return name;
    }
    self.rules.push(format!("{} = {}", name, expr));
    name
  }

  fn maybe_choice(&mut self, expr: String) -> String {
    if self.cfg.choices && self.r.chance(1, 5) {
      self.mark("type_choice");
      let other = self.r.pick::<&str>(UNRELATED).to_string();
      if self.r.coin() {
        format!("{} / {}", expr, other)
      } else {
        format!("{} / {}", other, expr)
      }
    } else {
      expr
    }
  }

  /// A type expression (may contain top-level `/`) admitting `d` (usually).
  pub fn ty(&mut self, d: &Doc, depth: usize) -> String {
    let e = self.ty1(d, depth);
    let e = self.maybe_choice(e);
    self.maybe_hoist(e)
  }

  fn int_ty(&mut self, n: i128) -> String {
    let mut opts: Vec<String> = vec!["int".into(), "number".into(), "integer".into(), "any".into()];
    if n >= 0 {
      opts.push("uint".into());
      opts.push("unsigned".into());
    } else {
      opts.push("nint".into());
    }
    if self.cfg.literals {
      opts.push(n.to_string());
      if n >= 0 && n < 1 << 60 {
        opts.push(format!("0x{:x}", n));
        opts.push(format!("0b{:b}", n));
      }
    }
    if self.cfg.ranges {
      self.mark("range");
      opts.push(format!("{}..{}", n - self.r.below(5) as i128, n + self.r.below(5) as i128));
      opts.push(format!("{}...{}", n, n + 1 + self.r.below(5) as i128));
      opts.push(format!("{}..{}", n + 1, n - 1));
    }
    if self.cfg.controls {
      self.mark("control_numeric");
      opts.push(format!("int .le {}", n));
      opts.push(format!("int .ge {}", n));
      opts.push(format!("int .lt {}", n + 1));
      opts.push(format!("int .gt {}", n - 1));
      opts.push(format!("int .eq {}", n));
      opts.push(format!("int .ne {}", n + 1));
      opts.push(format!("int .default {}", n));
      if n >= 0 {
        opts.push(format!("uint .size {}", 1 + self.r.below(8)));
        opts.push(format!("uint .size ({}..{})", self.r.below(3), 4 + self.r.below(6)));
        opts.push("uint .bits bitsenum".into());
        if !self.rules.iter().any(|x| x.starts_with("bitsenum =")) {
          self.rules.push("bitsenum = &(b0: 0, b1: 1, b5: 5)".into());
        }
      }
      opts.push(format!("(int .lt {}) .and (int .gt {})", n + 10, n - 10));
      opts.push("int .within number".into());
      opts.push(format!("{} .plus 0", n));
    }
    if self.cfg.enums {
      self.mark("enum");
      opts.push(format!("&(one: {}, two: {})", n, n + 1));
    }
    if n > 0 && n < 253402300800 {
      opts.push("time".into());
    }
    self.r.pick(&opts).clone()
  }

  fn text_ty(&mut self, s: &str) -> String {
    let mut opts: Vec<String> = vec!["tstr".into(), "text".into(), "any".into()];
    if self.cfg.literals {
      opts.push(cddl_text_literal(s));
    }
    let n = s.len();
    if self.cfg.controls {
      self.mark("control_text");
      opts.push(format!("tstr .size {}", n));
      opts.push(format!("tstr .size ({}..{})", n.saturating_sub(2), n + 2));
      opts.push("tstr .regexp \".*\"".into());
      opts.push("tstr .regexp \"[\\\\s\\\\S]*\"".into());
      opts.push("tstr .pcre \"(?s).*\"".into());
      opts.push(format!("tstr .regexp {}", cddl_text_literal(&regex_escape(s))));
      opts.push("tstr .regexp \"(a+)+$\"".into());
      opts.push("tstr .pcre \"(?=a)a|(?<!b).\"".into());
      opts.push(format!("tstr .default {}", cddl_text_literal(s)));
      opts.push(format!("tstr .ne {}", cddl_text_literal("never-this")));
      opts.push(format!("tstr .eq {}", cddl_text_literal(s)));
      if !s.is_empty() && s.is_char_boundary(s.len() / 2) {
        let (a, b) = s.split_at(s.len() / 2);
        opts.push(format!("{} .cat {}", cddl_text_literal(a), cddl_text_literal(b)));
        opts.push(format!("{} .det {}", cddl_text_literal(a), cddl_text_literal(b)));
      }
      opts.push("tstr .abnf \"rule = *VCHAR\"".into());
      opts.push(format!("tstr .abnf (\"rule = 1*ALPHA\" .cat {})", cddl_text_literal("\n")));
      opts.push("tstr .abnf \"r = ((((\"".into());
      opts.push("tstr .abnf \"a = b\\nb = a\"".into());
      opts.push("tstr .b64u bstr".into());
      opts.push("tstr .b64c bstr".into());
      opts.push("tstr .b64u-sloppy bstr".into());
      opts.push("tstr .hex bstr".into());
      opts.push("tstr .hexlc bstr".into());
      opts.push("tstr .hexuc bstr".into());
      opts.push("tstr .b32 bstr".into());
      opts.push("tstr .h32 bstr".into());
      opts.push("tstr .b45 bstr".into());
      opts.push("tstr .base10 int".into());
      opts.push("tstr .printf ([\"%d\", 1])".into());
      opts.push("tstr .json any".into());
      opts.push("tstr .json ([* int])".into());
      opts.push("tstr .join ([\"a\", \"b\"])".into());
      opts.push("tstr .iregexp \"[a-z]*\"".into());
    }
    if self.cfg.features {
      self.mark("feature");
      opts.push("tstr .feature \"featx\"".into());
      opts.push("tstr .feature (\"featx\")".into());
    }
    if s.contains(':') {
      opts.push("uri".into());
    }
    if s.contains('T') && s.contains('-') {
      opts.push("tdate".into());
    }
    opts.push("b64url".into());
    opts.push("regexp".into());
    opts.push("mime-message".into());
    self.r.pick(&opts).clone()
  }

  fn bytes_ty(&mut self, b: &[u8]) -> String {
    let mut opts: Vec<String> = vec!["bstr".into(), "bytes".into(), "any".into()];
    if self.cfg.literals {
      opts.push(format!("h'{}'", crate::kernel::hex(b)));
      if let Ok(s) = std::str::from_utf8(b) {
        if !s.contains('\'') && !s.contains('\\') {
          opts.push(format!("'{}'", s));
        }
      }
      opts.push(format!("b64'{}'", b64url(b)));
    }
    if self.cfg.controls {
      self.mark("control_bytes");
      opts.push(format!("bstr .size {}", b.len()));
      opts.push(format!("bstr .size ({}..{})", 0, b.len() + 1));
      opts.push("bstr .cbor any".into());
      opts.push("bstr .cborseq [* any]".into());
      opts.push("bstr .bits bitsenum".into());
      if !self.rules.iter().any(|x| x.starts_with("bitsenum =")) {
        self.rules.push("bitsenum = &(b0: 0, b1: 1, b5: 5)".into());
      }
      opts.push(format!("bstr .ne h'{}ff'", crate::kernel::hex(b)));
      opts.push("bstr .regexp \".*\"".into());
      opts.push("bstr .abnfb \"rule = *OCTET\"".into());
      opts.push("bstr .b64u tstr".into());
      opts.push("bstr .json any".into());
    }
    opts.push("eb64url".into());
    opts.push("eb16".into());
    opts.push("encoded-cbor".into());
    self.r.pick(&opts).clone()
  }

  fn occur(&mut self) -> &'static str {
    if !self.cfg.occurrences {
      return "";
    }
    self.mark("occurrence");
    *self.r.pick(&["", "", "", "? ", "* ", "+ ", "1*3 ", "0*1 ", "1* ", "*2 ", "2*2 "])
  }

  fn key_text(&mut self, k: &Doc) -> (String, bool) {
    // returns (member key text including the separator, is_bareword)
    match k {
      Doc::Text(t) => {
        let cut = if self.cfg.cuts && self.r.chance(1, 3) { " ^" } else { "" };
        if is_bareword(t) && self.r.chance(2, 3) {
          (format!("{}:", t), true)
        } else if self.r.chance(1, 6) {
          (format!("tstr{} =>", cut), false)
        } else if self.r.chance(1, 8) && self.cfg.controls {
          (format!("tstr .size ({}..{}){} =>", 0, t.len() + 3, cut), false)
        } else if self.r.coin() {
          (format!("{}:", cddl_text_literal(t)), false)
        } else {
          (format!("{}{} =>", cddl_text_literal(t), cut), false)
        }
      }
      Doc::Int(n) => {
        if self.r.coin() {
          (format!("{}:", n), false)
        } else {
          (format!("{} =>", if self.r.coin() { n.to_string() } else { "int".into() }), false)
        }
      }
      other => {
        let t = self.ty1(other, 99);
        (format!("{} =>", paren_if_choice(&t)), false)
      }
    }
  }

  fn ty1(&mut self, d: &Doc, depth: usize) -> String {
    match d {
      Doc::Null => self.r.pick(&["nil", "null", "any", "nil / tstr"]).to_string(),
      Doc::Bool(b) => {
        if self.cfg.literals && self.r.coin() {
          b.to_string()
        } else {
          self.r.pick(&["bool", "any", "bool .default true"]).to_string()
        }
      }
      Doc::Int(n) => self.int_ty(*n),
      Doc::Float(f) => {
        let mut o: Vec<String> =
          vec!["float".into(), "number".into(), "float64".into(), "float32-64".into(), "float16-32".into(), "float16".into(), "float32".into(), "any".into()];
        if self.cfg.literals && f.is_finite() {
          o.push(format!("{:?}", f));
        }
        if self.cfg.ranges && f.is_finite() {
          o.push(format!("{:?}..{:?}", f - 1.5, f + 1.5));
        }
        if self.cfg.controls && f.is_finite() {
          o.push(format!("float .ge {:?}", f));
          o.push(format!("float .lt {:?}", f + 1.0));
        }
        self.r.pick(&o).clone()
      }
      Doc::Text(s) => self.text_ty(s),
      Doc::Bytes(b) => self.bytes_ty(b),
      Doc::Tag(t, x) => {
        let inner = self.ty(x, depth + 1);
        let mut o: Vec<String> =
          vec![format!("#6.{}({})", t, inner), "any".into(), "#6".into(), "#".into(), format!("#6.<uint>({})", inner), format!("#6.{}(any)", t)];
        match t {
          0 => o.push("tdate".into()),
          1 => o.push("time".into()),
          2 => o.push("biguint".into()),
          3 => o.push("bignint".into()),
          4 => o.push("decfrac".into()),
          5 => o.push("bigfloat".into()),
          21 => o.push("eb64url".into()),
          22 => o.push("eb64legacy".into()),
          23 => o.push("eb16".into()),
          24 => o.push("encoded-cbor".into()),
          32 => o.push("uri".into()),
          33 => o.push("b64url".into()),
          34 => o.push("b64legacy".into()),
          35 => o.push("regexp".into()),
          36 => o.push("mime-message".into()),
          55799 => o.push("cbor-any".into()),
          _ => {}
        }
        if *t == 2 || *t == 3 {
          o.push("bigint".into());
          o.push("integer".into());
        }
        self.mark("tag");
        self.r.pick(&o).clone()
      }
      Doc::Array(a) => self.array_ty(a, depth),
      Doc::Map(m) => self.map_ty(m, depth),
    }
  }

  fn array_ty(&mut self, a: &[Doc], depth: usize) -> String {
    self.mark("array");
    if a.is_empty() {
      return self.r.pick(&["[]", "[* any]", "[? int]", "[* tstr]", "any", "[* (int, tstr)]"]).to_string();
    }
    match self.r.below(6) {
      0 => {
        // homogeneous
        let t = self.ty(&a[0].clone(), depth + 1);
        let occ = *self.r.pick(&["*", "+", "1*", "0*100"]);
        if self.r.coin() {
          format!("[{} {}]", occ, paren_if_choice(&t))
        } else {
          // choice over every element's type
          let mut ts: Vec<String> = Vec::new();
          for x in a {
            let t = self.ty1(x, depth + 1);
            if !ts.contains(&t) {
              ts.push(t);
            }
          }
          format!("[{} ({})]", occ, ts.join(" / "))
        }
      }
      1 => "[* any]".into(),
      2 if self.cfg.groups && a.len() >= 2 => {
        // hoist a prefix into a named group
        self.mark("group_rule");
        let k = self.r.range(1, a.len() - 1);
        let g = self.fresh("grp");
        let mut parts = Vec::new();
        for (i, x) in a[..k].iter().enumerate() {
          let t = self.ty(x, depth + 1);
          if self.r.coin() {
            parts.push(format!("f{}: {}", i, t));
          } else {
            parts.push(paren_if_choice(&t));
          }
        }
        self.rules.push(format!("{} = ({})", g, parts.join(", ")));
        let mut rest = Vec::new();
        for x in a[k..].iter() {
          let t = self.ty(x, depth + 1);
          rest.push(paren_if_choice(&t));
        }
        format!("[{}, {}]", g, rest.join(", "))
      }
      3 if self.cfg.groups => {
        // inline group with an occurrence, group choice
        self.mark("inline_group");
        let mut parts = Vec::new();
        for x in a {
          let t = self.ty(x, depth + 1);
          parts.push(paren_if_choice(&t));
        }
        if self.r.coin() {
          format!("[({})]", parts.join(", "))
        } else {
          self.mark("group_choice");
          format!("[{} // {}]", self.r.pick(&["int, int", "tstr", "* bool", "1*2 nil"]), parts.join(", "))
        }
      }
      _ => {
        // positional, optionally with member names, optional trailing entries
        let mut parts = Vec::new();
        for (i, x) in a.iter().enumerate() {
          let t = self.ty(x, depth + 1);
          let occ = if i + 1 == a.len() { self.occur() } else { "" };
          if self.r.chance(1, 3) {
            parts.push(format!("{}n{}: {}", occ, i, t));
          } else {
            parts.push(format!("{}{}", occ, paren_if_choice(&t)));
          }
        }
        if self.cfg.occurrences && self.r.chance(1, 3) {
          parts.push(format!("? {}", self.r.pick(&["int", "tstr", "nil", "[* any]"])));
        }
        if self.cfg.occurrences && self.r.chance(1, 5) {
          parts.push("* any".into());
        }
        let sep = if self.r.chance(1, 6) { " " } else { ", " };
        format!("[{}]", parts.join(sep))
      }
    }
  }

  fn map_ty(&mut self, m: &[(Doc, Doc)], depth: usize) -> String {
    self.mark("map");
    if m.is_empty() {
      return self.r.pick(&["{}", "{* tstr => any}", "{? a: int}", "any", "{* any => any}"]).to_string();
    }
    match self.r.below(6) {
      0 => {
        let t = self.ty(&m[0].1.clone(), depth + 1);
        let kt = if m.iter().all(|(k, _)| matches!(k, Doc::Text(_))) { "tstr" } else { "any" };
        if self.cfg.generics && self.r.coin() {
          self.mark("generic");
          let g = self.fresh("tbl");
          self.rules.push(format!("{}<K, V> = {{* K => V}}", g));
          format!("{}<{}, {}>", g, kt, if m.len() == 1 { paren_if_choice(&t) } else { "any".into() })
        } else {
          format!("{{{} {} => {}}}", self.r.pick(&["*", "+", "1*"]), kt, if m.len() == 1 { paren_if_choice(&t) } else { "any".into() })
        }
      }
      1 => "{* any => any}".into(),
      2 if self.cfg.groups => {
        self.mark("group_rule");
        let k = self.r.range(1, m.len());
        let g = self.fresh("mgrp");
        let mut parts = Vec::new();
        for (key, v) in m[..k].iter() {
          let (kt, _) = self.key_text(key);
          let t = self.ty(v, depth + 1);
          parts.push(format!("{} {}", kt, t));
        }
        self.rules.push(format!("{} = ({})", g, parts.join(", ")));
        let mut rest = vec![g.clone()];
        for (key, v) in m[k..].iter() {
          let (kt, _) = self.key_text(key);
          let t = self.ty(v, depth + 1);
          rest.push(format!("{} {}", kt, t));
        }
        if self.cfg.sockets && self.r.chance(1, 3) {
          self.mark("group_socket");
          let s = format!("$${}", self.fresh("gsock"));
          self.rules.push(format!("{} //= (? sockext: int)", s));
          rest.push(s);
        }
        if self.cfg.unwrap && self.r.chance(1, 3) {
          self.mark("unwrap");
          let base = self.fresh("base");
          self.rules.push(format!("{} = {{ {} }}", base, rest.join(", ")));
          return format!("{{ ~{} }}", base);
        }
        format!("{{ {} }}", rest.join(", "))
      }
      3 if self.cfg.groups => {
        self.mark("group_choice");
        let mut parts = Vec::new();
        for (key, v) in m {
          let (kt, _) = self.key_text(key);
          let t = self.ty(v, depth + 1);
          parts.push(format!("{} {}", kt, t));
        }
        format!("{{ {} // {} }}", self.r.pick(&["never: int", "a: tstr, b: tstr", "* int => int"]), parts.join(", "))
      }
      _ => {
        let mut parts = Vec::new();
        for (key, v) in m {
          let (kt, _) = self.key_text(key);
          let t = self.ty(v, depth + 1);
          let occ = if self.cfg.occurrences && self.r.chance(1, 4) { "? " } else { "" };
          parts.push(format!("{}{} {}", occ, kt, t));
        }
        if self.cfg.occurrences && self.r.chance(1, 3) {
          parts.push(format!("? {}: {}", self.r.pick(&["opt", "\"opt2\"", "99"]), self.r.pick(&["int", "tstr", "any"])));
        }
        if self.r.chance(1, 4) {
          parts.push(self.r.pick(&["* tstr => any", "* any => any", "* tstr => int", "* int => any"]).to_string());
        }
        if self.r.chance(1, 8) {
          self.r.shuffle(&mut parts);
        }
        format!("{{ {} }}", parts.join(", "))
      }
    }
  }

  /// Finish: the document's rule first (root), then the helper rules, then optional extras / hazards.
  pub fn finish(mut self, root_expr: String) -> String {
    let mut lines: Vec<String> = Vec::new();
    let root = format!("root = {}", root_expr);
    lines.push(root);
    let mut rules = std::mem::take(&mut self.rules);
    if self.r.chance(1, 4) {
      self.r.shuffle(&mut rules);
    }
    lines.extend(rules);
    if self.cfg.extra_rules {
      let n = self.r.range(1, 4);
      for _ in 0..n {
        let name = self.fresh("extra");
        let body = rand_type(self.r, 2, &[]);
        lines.push(format!("{} = {}", name, body));
      }
    }
    if self.cfg.hazards {
      self.mark("hazard");
      inject_hazard(self.r, &mut lines);
    }
    if self.cfg.comments {
      self.mark("comment");
      let n = lines.len();
      let at = self.r.below(n + 1);
      lines.insert(at, "; a comment".into());
      if self.r.coin() {
        let i = self.r.below(lines.len());
        lines[i].push_str(" ; trailing comment");
      }
    }
    lines.join("\n") + "\n"
  }
}

pub fn regex_escape(s: &str) -> String {
  let mut out = String::new();
  for c in s.chars() {
    if "\\.+*?()|[]{}^$#&-~".contains(c) {
      out.push('\\');
    }
    out.push(c);
  }
  out
}

pub fn paren_if_choice(e: &str) -> String {
  // top-level `/`, range or control operators need parentheses in a type1 / group-entry position
  let mut depth = 0i32;
  let mut in_str = false;
  let mut prev = ' ';
  let b: Vec<char> = e.chars().collect();
  for (i, c) in b.iter().enumerate() {
    if in_str {
      if *c == '"' && prev != '\\' {
        in_str = false;
      }
      prev = *c;
      continue;
    }
    match c {
      '"' => in_str = true,
      '(' | '[' | '{' | '<' => depth += 1,
      ')' | ']' | '}' | '>' => depth -= 1,
      '/' if depth == 0 => return format!("({})", e),
      ' ' if depth == 0 && i + 1 < b.len() && b[i + 1] == '.' => return format!("({})", e),
      '.' if depth == 0 && i + 1 < b.len() && b[i + 1] == '.' => return format!("({})", e),
      _ => {}
    }
    prev = *c;
  }
  e.to_string()
}

/// Rule-graph hazards: alias cycles, self-reference through operators, generic self-application.
/// Some of these are known to overflow the stack of the validators (see known_findings.json).
pub fn inject_hazard(r: &mut Rng, lines: &mut Vec<String>) {
  let k = r.below(12);
  let use_in_root = r.coin();
  let (name, defs): (&str, Vec<String>) = match k {
    0 => ("hz_a", vec!["hz_a = hz_b".into(), "hz_b = hz_a".into()]),
    1 => ("hz_a", vec!["hz_a = hz_b .size 3".into(), "hz_b = hz_a".into()]),
    2 => ("hz_self", vec!["hz_self = hz_self".into()]),
    3 => ("hz_t", vec!["hz_t = hz_g<hz_g<int>>".into(), "hz_g<T> = T / nil".into()]),
    4 => ("hz_u", vec!["hz_u = ~hz_v".into(), "hz_v = hz_v".into()]),
    5 => ("hz_w", vec!["hz_w = hz_w..\"z\"".into()]),
    6 => ("hz_x", vec!["hz_x = hz_x / ~hz_y".into(), "hz_y = [int]".into()]),
    7 => ("hz_j", vec!["hz_j = hz_j .join int".into()]),
    8 => ("hz_p", vec!["hz_p = hz_g1<hz_q>".into(), "hz_q = hz_g1<~hz_r>".into(), "hz_g1<T> = T".into(), "hz_r = [int]".into()]),
    9 => ("hz_tree", vec!["hz_tree = [* hz_tree]".into()]),
    10 => ("hz_list", vec!["hz_list = nil / [int, hz_list]".into()]),
    _ => ("hz_m", vec!["hz_m = { * tstr => hz_m } / int".into()]),
  };
  for d in defs {
    lines.push(d);
  }
  if use_in_root && !lines.is_empty() {
    // make it reachable from the root: root = (<old>) / hazard, or hazard first
    let old = lines[0].clone();
    if let Some(rest) = old.strip_prefix("root = ") {
      lines[0] = if r.coin() { format!("root = {} / {}", paren_if_choice(rest), name) } else { format!("root = {} / {}", name, paren_if_choice(rest)) };
    }
  }
}

// ------------------------------------------------------------------------------------------------
// purely grammar-directed schemas (every construct the parser accepts, no document in mind)

const PRELUDE: &[&str] = &[
  "any", "uint", "nint", "int", "bstr", "bytes", "tstr", "text", "tdate", "time", "number", "biguint", "bignint", "bigint", "integer", "unsigned",
  "decfrac", "bigfloat", "eb64url", "eb64legacy", "eb16", "encoded-cbor", "uri", "b64url", "b64legacy", "regexp", "mime-message", "cbor-any",
  "float16", "float32", "float64", "float16-32", "float32-64", "float", "false", "true", "bool", "nil", "null", "undefined",
];

const CONTROLS: &[&str] = &[
  "size", "bits", "regexp", "pcre", "iregexp", "cbor", "cborseq", "within", "and", "lt", "le", "gt", "ge", "eq", "ne", "default", "cat", "det", "plus",
  "abnfb", "abnf", "feature", "b64u-sloppy", "b64c-sloppy", "b64u", "b64c", "hexuc", "hexlc", "hex", "base10", "printf", "json", "join", "b32", "h32", "b45",
  "bitfield",
];

const VALUES: &[&str] = &[
  "0", "1", "-1", "23", "24", "255", "18446744073709551615", "-18446744073709551616", "18446744073709551616", "99999999999999999999999999", "0x10", "0xFFFFFFFFFFFFFFFF", "0x10000000000000000",
  "0b101", "-0x1", "1.5", "-0.0", "1e3", "1e400", "1.0e-400", "0x1p4", "0x1.8p1", "-0x1p-2", "\"\"", "\"a\"", "\"a\\\"b\"", "\"\\u00e9\"", "\"\\u{1F600}\"", "\"\\ud800\"", "\"\\u{110000}\"", "\"line\\nbreak\"",
  "\"é\\\"\"", "\"日\\\\本\"", "\"ß\\nz\"", "\"a\\\"é\\tb\"", "h''", "h'00ff'", "h'0'", "h'zz'", "h'00 ff'", "h'4342 ; trailing note'", "h'43 ;c\n42'", "b64'EjRWeA ;x'", "h';x'", "h'00\n11'", "h' 00'", "h'00 '", "b64'aGVs\n bG8'", "';not a comment'", "'bytes'", "''", "b64''", "b64'aGVsbG8'", "b64'!!!'", "h\"00ff\"", "'it\\'s'",
];

pub fn rand_ident(r: &mut Rng, names: &[String]) -> String {
  if !names.is_empty() && r.chance(2, 3) {
    return r.pick(names).clone();
  }
  match r.below(4) {
    0 => r.pick::<&str>(PRELUDE).to_string(),
    1 => format!("undefined-name{}", r.below(3)),
    _ => r.pick::<&str>(PRELUDE).to_string(),
  }
}

pub fn rand_type2(r: &mut Rng, depth: usize, names: &[String]) -> String {
  let leaf = depth == 0;
  let w = [6, 8, if leaf { 0 } else { 3 }, if leaf { 0 } else { 4 }, if leaf { 0 } else { 4 }, 1, 1, 1, 2, if leaf { 0 } else { 1 }];
  match r.weighted(&w) {
    0 => r.pick::<&str>(VALUES).to_string(),
    1 => rand_ident(r, names),
    2 => format!("({})", rand_type(r, depth - 1, names)),
    3 => format!("{{{}}}", rand_group(r, depth - 1, names)),
    4 => format!("[{}]", rand_group(r, depth - 1, names)),
    5 => format!("~{}", rand_ident(r, names)),
    6 => {
      if leaf {
        format!("&{}", rand_ident(r, names))
      } else {
        format!("&({})", rand_group(r, depth - 1, names))
      }
    }
    7 => format!("&{}", rand_ident(r, names)),
    8 => match r.below(7) {
      0 => "#".into(),
      1 => format!("#{}", r.below(8)),
      2 => format!("#6.{}({})", r.pick(&["0", "1", "2", "24", "32", "55799", "18446744073709551615", "18446744073709551616"]), if leaf { "any".to_string() } else { rand_type(r, depth - 1, names) }),
      3 => format!("#{}.{}", r.below(8), r.pick(&["0", "20", "23", "24", "25", "31", "32", "255", "256"])),
      4 => format!("#6.<{}>({})", rand_ident(r, names), "any"),
      5 => format!("#7.{}", r.below(256)),
      _ => format!("#6({})", if leaf { "any".to_string() } else { rand_type(r, depth - 1, names) }),
    },
    _ => {
      // generic application
      let n = r.range(1, 3);
      let args: Vec<String> = (0..n).map(|_| rand_type1(r, depth - 1, names)).collect();
      format!("{}<{}>", rand_ident(r, names), args.join(", "))
    }
  }
}

pub fn rand_type1(r: &mut Rng, depth: usize, names: &[String]) -> String {
  let a = rand_type2(r, depth, names);
  match r.below(8) {
    0 => format!("{} {} {}", a, r.pick(&["..", "..."]), rand_type2(r, depth.min(1), names)),
    1 | 2 => format!("{} .{} {}", a, r.pick::<&str>(CONTROLS), rand_type2(r, depth.min(1), names)),
    _ => a,
  }
}

pub fn rand_type(r: &mut Rng, depth: usize, names: &[String]) -> String {
  let n = if r.chance(1, 4) { r.range(2, 4) } else { 1 };
  (0..n).map(|_| rand_type1(r, depth, names)).collect::<Vec<_>>().join(" / ")
}

fn rand_occur(r: &mut Rng) -> String {
  match r.below(12) {
    0 => "? ".into(),
    1 => "* ".into(),
    2 => "+ ".into(),
    3 => format!("{}*{} ", r.below(4), r.below(6)),
    4 => format!("{}* ", r.below(4)),
    5 => format!("*{} ", r.below(4)),
    6 => "18446744073709551615*18446744073709551616 ".into(),
    _ => String::new(),
  }
}

pub fn rand_group(r: &mut Rng, depth: usize, names: &[String]) -> String {
  let nchoices = if r.chance(1, 5) { 2 } else { 1 };
  let mut cs = Vec::new();
  for _ in 0..nchoices {
    let n = r.below(4);
    let mut es = Vec::new();
    for _ in 0..n {
      let occ = rand_occur(r);
      let e = match r.below(7) {
        0 => format!("{}{}", occ, rand_type(r, depth, names)),
        1 => format!("{}{}: {}", occ, r.pick(&["a", "b", "key", "x-y", "@id", "_u"]), rand_type(r, depth, names)),
        2 => format!("{}{} => {}", occ, rand_type1(r, depth.min(1), names), rand_type(r, depth, names)),
        3 => format!("{}{} ^ => {}", occ, rand_type2(r, 0, names), rand_type(r, depth, names)),
        4 => format!("{}{}: {}", occ, r.pick::<&str>(VALUES), rand_type(r, depth, names)),
        5 if depth > 0 => format!("{}({})", occ, rand_group(r, depth - 1, names)),
        _ => format!("{}{}", occ, rand_ident(r, names)),
      };
      es.push(e);
    }
    let sep = if r.chance(1, 6) { " " } else { ", " };
    let mut s = es.join(sep);
    if r.chance(1, 8) && !s.is_empty() {
      s.push(',');
    }
    cs.push(s);
  }
  cs.join(" // ")
}

/// A whole random schema: rule names are drawn from a small pool so that duplicates, alternates,
/// forward references and undefined references all occur.
pub fn rand_schema(r: &mut Rng) -> String {
  let n = r.range(1, 8);
  let pool: Vec<String> = (0..r.range(2, 6)).map(|i| format!("t{}", i)).collect();
  let mut out = String::new();
  for i in 0..n {
    let name = if i == 0 { "root".to_string() } else if r.chance(1, 8) { format!("${}", r.pick(&pool)) } else if r.chance(1, 12) { format!("$${}", r.pick(&pool)) } else { r.pick(&pool).clone() };
    let gp = if r.chance(1, 6) { "<T>" } else if r.chance(1, 20) { "<A, B>" } else { "" };
    let mut names = pool.clone();
    if !gp.is_empty() {
      names.push("T".into());
    }
    let depth = r.range(0, 3);
    match r.below(10) {
      0 => out.push_str(&format!("{}{} = ({})\n", name, gp, rand_group(r, depth, &names))),
      1 => out.push_str(&format!("{}{} //= ({})\n", name, gp, rand_group(r, depth, &names))),
      2 => out.push_str(&format!("{}{} /= {}\n", name, gp, rand_type(r, depth, &names))),
      3 => out.push_str(&format!("{}{} = {}{}: {}\n", name, gp, rand_occur(r), "k", rand_type(r, depth, &names))),
      _ => out.push_str(&format!("{}{} = {}\n", name, gp, rand_type(r, depth, &names))),
    }
    if r.chance(1, 6) {
      out.push_str("; comment line\n");
    }
  }
  out
}

// ------------------------------------------------------------------------------------------------
// nesting and size families (parametric, for the growth check and the depth bound)

#[derive(Clone, Copy, Debug, PartialEq)]
pub enum Family {
  SchemaArray,
  SchemaMap,
  SchemaParen,
  SchemaGroup,
  SchemaArrayNamed,
  SchemaGeneric,
  SchemaChoiceNest,
  DataArray,
  DataMap,
  DataTag,
  RecursiveRule,
  RecursiveChoiceBadLeaf,
  ManyRules,
  ManyChoices,
  LongArray,
  WideMap,
  AliasDiamond,
  ChoiceOfMaps,
  AbnfNest,
  OptionalRun,
  JoinRepeat,
  PatternRepeat,
  ArrayChoiceNest,
}

pub const FAMILIES: &[Family] = &[
  Family::SchemaArray,
  Family::SchemaMap,
  Family::SchemaParen,
  Family::SchemaGroup,
  Family::SchemaArrayNamed,
  Family::SchemaGeneric,
  Family::SchemaChoiceNest,
  Family::DataArray,
  Family::DataMap,
  Family::DataTag,
  Family::RecursiveRule,
  Family::RecursiveChoiceBadLeaf,
  Family::ManyRules,
  Family::ManyChoices,
  Family::LongArray,
  Family::WideMap,
  Family::AliasDiamond,
  Family::ChoiceOfMaps,
  Family::AbnfNest,
  Family::OptionalRun,
  Family::JoinRepeat,
  Family::PatternRepeat,
  Family::ArrayChoiceNest,
];

pub struct Case {
  pub schema: String,
  pub json: String,
  pub cbor: Vec<u8>,
}

fn nest_doc(kind: u8, d: usize) -> Doc {
  let mut x = Doc::Int(1);
  for _ in 0..d {
    x = match kind {
      0 => Doc::Array(vec![x]),
      1 => Doc::Map(vec![(Doc::Text("a".into()), x)]),
      _ => Doc::Tag(100, Box::new(x)),
    };
  }
  x
}

/// A member of a parametric family at parameter `n` (depth for nesting families, count for size families).
pub fn family_case(f: Family, n: usize) -> Case {
  let mk = |schema: String, doc: Doc| Case { schema, json: to_json(&doc), cbor: to_cbor_min(&doc) };
  match f {
    Family::SchemaArray => mk(format!("root = {}int{}\n", "[".repeat(n), "]".repeat(n)), nest_doc(0, n)),
    Family::SchemaMap => mk(format!("root = {}int{}\n", "{a: ".repeat(n), "}".repeat(n)), nest_doc(1, n)),
    Family::SchemaParen => mk(format!("root = {}int{}\n", "(".repeat(n), ")".repeat(n)), Doc::Int(1)),
    Family::SchemaGroup => mk(format!("root = [{}int{}]\n", "(".repeat(n), ")".repeat(n)), Doc::Array(vec![Doc::Int(1)])),
    Family::SchemaArrayNamed => mk(format!("root = {}int{}\n", "[x: ".repeat(n), "]".repeat(n)), nest_doc(0, n)),
    Family::SchemaGeneric => mk(format!("root = {}int{}\ng<T> = [T]\n", "g<".repeat(n), ">".repeat(n)), nest_doc(0, n)),
    Family::SchemaChoiceNest => {
      // root = [int / [int / [ ... ]]]
      let mut s = "int".to_string();
      for _ in 0..n {
        s = format!("[tstr / {}]", s);
      }
      mk(format!("root = {}\n", s), nest_doc(0, n))
    }
    Family::DataArray => mk("root = any\n".into(), nest_doc(0, n)),
    Family::DataMap => mk("root = {* tstr => root} / int\n".into(), nest_doc(1, n)),
    Family::DataTag => mk("root = #6.100(root) / int\n".into(), nest_doc(2, n)),
    Family::RecursiveRule => mk("root = [* root] / int\n".into(), nest_doc(0, n)),
    Family::RecursiveChoiceBadLeaf => {
      // a natural recursive schema (leaf / node with kids) and a document that is conforming down to a
      // leaf of the wrong type at depth n: every level's alternatives are retried
      let mut x = Doc::Map(vec![(Doc::Text("kind".into()), Doc::Text("leaf".into())), (Doc::Text("v".into()), Doc::Text("not-an-int".into()))]);
      for _ in 0..n {
        x = Doc::Map(vec![(Doc::Text("kind".into()), Doc::Text("node".into())), (Doc::Text("kids".into()), Doc::Array(vec![x]))]);
      }
      mk("root = { kind: \"leaf\", v: int } / { kind: \"node\", kids: [* root] }\n".into(), x)
    }
    Family::ManyRules => {
      let mut s = String::from("root = [* r0]\n");
      for i in 0..n {
        s.push_str(&format!("r{} = r{} / {}\n", i, i + 1, i));
      }
      s.push_str(&format!("r{} = tstr\n", n));
      mk(s, Doc::Array(vec![Doc::Int(n as i128 - 1), Doc::Text("x".into()), Doc::Int(-5)]))
    }
    Family::ManyChoices => {
      let alts: Vec<String> = (0..n).map(|i| format!("{}", i * 2)).collect();
      mk(format!("root = [* ({})]\n", alts.join(" / ")), Doc::Array(vec![Doc::Int(0), Doc::Int(n as i128 * 2 - 2), Doc::Int(1)]))
    }
    Family::LongArray => mk("root = [* int]\n".into(), Doc::Array((0..n).map(|i| Doc::Int(i as i128)).collect())),
    Family::WideMap => {
      let fields: Vec<String> = (0..n).map(|i| format!("? k{}: int", i)).collect();
      mk(
        format!("root = {{ {} }}\n", fields.join(", ")),
        Doc::Map((0..n).map(|i| (Doc::Text(format!("k{}", i)), Doc::Int(i as i128))).collect()),
      )
    }
    Family::AliasDiamond => {
      // r_i = r_{i+1} / r_{i+1}: a DAG of aliases, 2^n paths
      let mut s = String::from("root = r0 .size 3\n");
      for i in 0..n {
        s.push_str(&format!("r{} = r{} / r{}\n", i, i + 1, i + 1));
      }
      s.push_str(&format!("r{} = int\n", n));
      mk(s, Doc::Text("abc".into()))
    }
    Family::ChoiceOfMaps => {
      // nested maps where every level is a two-way choice that fails late
      let mut s = "int".to_string();
      for _ in 0..n {
        s = format!("{{ a: {}, b: tstr }} / {{ a: {}, b: int }}", s, s);
        s = format!("({})", s);
      }
      let mut d = Doc::Int(1);
      for _ in 0..n {
        d = Doc::Map(vec![(Doc::Text("a".into()), d), (Doc::Text("b".into()), Doc::Int(1))]);
      }
      mk(format!("root = {}\n", s), d)
    }
    Family::AbnfNest => {
      let g = format!("r = {}\"a\"{}", "*(".repeat(n), ")".repeat(n));
      mk(format!("root = tstr .abnf {}\n", cddl_text_literal(&g)), Doc::Text("a".repeat(n.min(40))))
    }
    Family::JoinRepeat => {
      // the classic adversary of a backtracking matcher: the same marker n/3 times between variable parts, a
      // final marker that never occurs, and a text made of the marker only
      let k = (n / 3).max(1);
      let mut parts: Vec<String> = Vec::new();
      for _ in 0..k {
        parts.push("tstr".into());
        parts.push("\"a\"".into());
      }
      parts.push("tstr".into());
      parts.push("\"b\"".into());
      mk(format!("root = tstr .join [{}]\n", parts.join(", ")), Doc::Text("a".repeat(n)))
    }
    Family::PatternRepeat => {
      // nested repetition against a run that almost matches, through every pattern-matching controller
      mk(
        "root = tstr .regexp \"(a*)*b\" / tstr .pcre \"^(a+)+$\" / tstr .abnf \"r\\nr = *(*\\\"a\\\") \\\"b\\\"\\n\" / tstr .iregexp \"(a|aa)*b\"\n".into(),
        Doc::Text(format!("{}c", "a".repeat(n))),
      )
    }
    Family::ArrayChoiceNest => {
      // a choice between two alternatives that both accept the (valid) document, at every nesting level: a
      // validator that keeps trying alternatives after one has matched doubles its work per level
      let mut x = Doc::Array(vec![]);
      for _ in 1..n.max(1) {
        x = Doc::Array(vec![x]);
      }
      mk("root = [* ([* root] / [* root])]\n".into(), x)
    }
    Family::OptionalRun => {
      let fields: Vec<String> = (0..n).map(|_| "? int".to_string()).collect();
      mk(format!("root = [{}, tstr]\n", fields.join(", ")), Doc::Array((0..n).map(|i| Doc::Int(i as i128)).collect()))
    }
  }
}

// ------------------------------------------------------------------------------------------------
// the corpus: fixtures snapshotted from /repo/tests/fixtures

pub struct Corpus {
  pub schemas: Vec<(String, String)>,
  /// (schema index, name, json text)
  pub json: Vec<(usize, String, String)>,
  pub cbor: Vec<(usize, String, Vec<u8>)>,
  pub csv: Vec<(usize, String, String)>,
}

pub fn load_corpus() -> Corpus {
  let root = crate::report::verif_dir().join("corpus");
  let mut c = Corpus { schemas: vec![], json: vec![], cbor: vec![], csv: vec![] };
  let mut dirs: Vec<std::path::PathBuf> = Vec::new();
  if let Ok(rd) = std::fs::read_dir(root.join("did")) {
    for e in rd.flatten() {
      if e.path().is_dir() {
        dirs.push(e.path());
      }
    }
  }
  dirs.sort();
  for d in dirs {
    let mut files: Vec<std::path::PathBuf> = std::fs::read_dir(&d).map(|rd| rd.flatten().map(|e| e.path()).collect()).unwrap_or_default();
    files.sort();
    let mut si = None;
    for f in &files {
      if f.extension().map(|e| e == "cddl").unwrap_or(false) {
        if let Ok(s) = std::fs::read_to_string(f) {
          c.schemas.push((f.file_name().unwrap().to_string_lossy().to_string(), s));
          si = Some(c.schemas.len() - 1);
        }
      }
    }
    if let Some(si) = si {
      for f in &files {
        let name = f.file_name().unwrap().to_string_lossy().to_string();
        match f.extension().and_then(|e| e.to_str()) {
          Some("json") => {
            if let Ok(s) = std::fs::read_to_string(f) {
              c.json.push((si, name, s));
            }
          }
          Some("cbor") => {
            if let Ok(b) = std::fs::read(f) {
              c.cbor.push((si, name, b));
            }
          }
          _ => {}
        }
      }
    }
  }
  let mut files: Vec<std::path::PathBuf> = std::fs::read_dir(root.join("cddl")).map(|rd| rd.flatten().map(|e| e.path()).collect()).unwrap_or_default();
  files.sort();
  for f in files {
    if let Ok(s) = std::fs::read_to_string(&f) {
      let name = f.file_name().unwrap().to_string_lossy().to_string();
      c.schemas.push((name.clone(), s));
      let si = c.schemas.len() - 1;
      let pair = |n: &str| root.join(n);
      match name.as_str() {
        "reputon.cddl" | "reputon_nocommas.cddl" => {
          if let Ok(j) = std::fs::read_to_string(pair("json/reputon.json")) {
            c.json.push((si, "reputon.json".into(), j));
          }
        }
        "csv-simple.cddl" => {
          if let Ok(j) = std::fs::read_to_string(pair("csv/simple.csv")) {
            c.csv.push((si, "simple.csv".into(), j));
          }
        }
        "csv-with-header.cddl" => {
          if let Ok(j) = std::fs::read_to_string(pair("csv/with-header.csv")) {
            c.csv.push((si, "with-header.csv".into(), j));
          }
        }
        "csv-sid-file.cddl" => {
          if let Ok(j) = std::fs::read_to_string(pair("csv/sid-file.csv")) {
            c.csv.push((si, "sid-file.csv".into(), j));
          }
        }
        _ => {}
      }
    }
  }
  c
}

// ------------------------------------------------------------------------------------------------
// adversarial constants: work or memory that scales with the *numeric value* of a constant in the schema
// (an occurrence bound, a .size, a range end, a tag number, a repetition inside a regular expression or
// ABNF controller) instead of with the size of the input

const HUGE: &[&str] = &["1000000", "4000000000", "4000000000000", "9223372036854775807", "9223372036854775808", "18446744073709551615"];

/// (schema, JSON document) pairs in which a huge constant meets a construct that might iterate over it.
pub fn huge_const_case(r: &mut Rng) -> (String, Doc) {
  let n = *r.pick(HUGE);
  let m = *r.pick(HUGE);
  let zero_width = *r.pick(&["()", "(? int)", "(* tstr)", "g0", "(? int, ? tstr)", "(? (int, int))"]);
  let arr = |v: Vec<Doc>| Doc::Array(v);
  let small_arrays: Vec<Doc> = vec![arr(vec![]), arr(vec![Doc::Int(1)]), arr(vec![Doc::Text("a".into())]), arr(vec![Doc::Int(1), Doc::Text("a".into()), Doc::Int(2)])];
  let doc = r.pick(&small_arrays).clone();
  // the ABNF variant is rare: today every instance of it kills the process (see known_findings.json)
  match r.weighted(&[8, 8, 8, 8, 8, 8, 8, 8, 8, 8, 8, 1, 8]) {
    12 => {
      // numbers written inside a .printf format string: field width and precision
      let (conv, arg) = *r.pick(&[("d", "1"), ("s", "\"ab\""), ("x", "255"), ("f", "1.5"), ("e", "1.5"), ("g", "2.25"), ("c", "65"), ("05d", "-7")]);
      let spec = match r.below(4) {
        0 => format!("%{}{}", n, conv),
        1 => format!("%-{}{}", n, conv),
        2 => format!("%.{}{}", n, conv),
        _ => format!("%{}.{}{}", n, m, conv),
      };
      (format!("root = text .printf [\"{}\", {}]\n", spec.replace("05d", "d"), arg), r.pick(&[Doc::Text("x".into()), Doc::Text("1".into()), Doc::Text(" ".repeat(40))]).clone())
    }
    0 => (format!("root = [ {}* {} ]\ng0 = ()\n", n, zero_width), doc),
    1 => (format!("root = [ {}*{} {}, tstr ]\ng0 = (? int)\n", n, m, zero_width), doc),
    2 => (format!("root = [ {}*{} int ]\n", n, m), doc),
    3 => (format!("root = [ * ({}* {}) ]\ng0 = ()\n", n, zero_width), doc),
    4 => (format!("root = {{ {}* {} }}\ng0 = ()\n", n, zero_width.replace("int", "a: int").replace("tstr", "b: tstr")), Doc::Map(vec![(Doc::Text("a".into()), Doc::Int(1))])),
    5 => (format!("root = {{ {}*{} tstr => int }}\n", n, m), Doc::Map(vec![(Doc::Text("a".into()), Doc::Int(1))])),
    6 => (format!("root = bstr .size {} / tstr .size {} / uint .size {}\n", n, m, r.pick(&["8", "9", "64", n])), r.pick(&[Doc::Text("abc".into()), Doc::Int(5), Doc::Bytes(vec![1, 2, 3])]).clone()),
    7 => (format!("root = uint .bits {} / bstr .bits {}\n", n, m), r.pick(&[Doc::Int(5), Doc::Bytes(vec![1, 2, 3])]).clone()),
    8 => (format!("root = 0..{} / -{}..0 / 0.5..{}.0\n", n, m, n), r.pick(&[Doc::Int(5), Doc::Int(-5), Doc::Float(1.5)]).clone()),
    9 => (format!("root = #6.{}(int) / #6.{}(tstr)\n", n, m), r.pick(&[Doc::Int(5), Doc::Tag(1, Box::new(Doc::Int(5)))]).clone()),
    10 => {
      let k = *r.pick(&["1000", "100000", "1000000000"]);
      (
        format!("root = tstr .regexp \"(a{{{}}}){{{}}}\" / tstr .pcre \"(a+)+$\" / tstr .regexp \"a{{{},}}\"\n", k, k, k),
        Doc::Text(format!("{}b", "a".repeat(*r.pick(&[3usize, 30, 60])))),
      )
    }
    _ => {
      let k = *r.pick(&["1000", "100000", "4000000000"]);
      (format!("root = tstr .abnf \"r\\nr = {}*{}\\\"a\\\" / {}(*\\\"b\\\")\\n\"\n", k, k, k), Doc::Text("aab".into()))
    }
  }
}

// ------------------------------------------------------------------------------------------------
// legitimately recursive (well-founded) schemas with data that actually recurses: what the validators'
// visited-rule / active-group guards must let through and must terminate on

fn t(s: &str) -> Doc {
  Doc::Text(s.to_string())
}

/// (schema, document) for recursion shape `shape` at depth `d`; `bad` puts a value of the wrong type at the
/// deepest level, so that every alternative on the way down is tried and rejected.
pub fn recursive_case(r: &mut Rng) -> (String, Doc, &'static str) {
  let d = *r.pick(&[1usize, 2, 3, 4, 6, 8, 12, 16, 24, 32, 48, 63]);
  let bad = r.chance(1, 3);
  let leaf = |bad: bool| if bad { Doc::Text("not-an-int".into()) } else { Doc::Int(7) };
  match r.below(17) {
    12 => {
      // a group referenced inside an array, extended by a left-recursive //= alternate (BNF style); the
      // alternate is only tried when the base arm fails at that position
      let mut x = if bad { Doc::Array(vec![t("x")]) } else { Doc::Array(vec![Doc::Int(1)]) };
      for _ in 0..d.min(16) {
        x = Doc::Array(vec![x]);
      }
      let doc = match r.below(4) {
        0 => Doc::Array(vec![]),
        1 => Doc::Array(vec![Doc::Int(1), t("+"), Doc::Int(2), t("+"), x.clone()]),
        _ => x,
      };
      ("expr = [ terms ]\nterms = ( lhs: term )\nterms //= ( terms, \"+\", term )\nterm = int / expr\n".into(), doc, "left-recursive-group-alternate")
    }
    13 => {
      let n = d.min(40);
      let mut v: Vec<Doc> = (0..n).map(|i| Doc::Int(i as i128)).collect();
      if bad {
        v.push(t("x"));
      }
      ("seq = [ items ]\nitems = ( int, ? items )\n".into(), Doc::Array(v), "right-recursive-group")
    }
    14 => {
      let n = d.min(24);
      let mut v: Vec<Doc> = (0..n).map(|_| t("s")).collect();
      v.push(if bad { Doc::Null } else { Doc::Int(1) });
      ("root = [ items ]\nitems //= ( int )\nitems //= ( tstr, items )\n".into(), Doc::Array(v), "group-defined-by-alternates")
    }
    15 => {
      let mut x = leaf(bad);
      for _ in 0..d {
        x = Doc::Array(vec![Doc::Int(0), x]);
      }
      ("root = val\nval /= int\nval /= [* val]\nval /= nil\n".into(), x, "type-defined-by-alternates")
    }
    16 => {
      let n = d.min(24);
      let mut v: Vec<Doc> = (0..n).map(|i| Doc::Int(i as i128)).collect();
      if bad {
        v.insert(0, t("x"));
      }
      ("root = [ $$ext ]\n$$ext //= ( int )\n$$ext //= ( $$ext, int )\n".into(), Doc::Array(v), "left-recursive-socket")
    }
    0 => {
      let mut x = leaf(bad);
      for _ in 0..d {
        x = Doc::Array(vec![Doc::Int(1), x]);
      }
      ("root = [* root] / int\n".into(), x, "array")
    }
    1 => {
      let mut x = Doc::Map(vec![(t("v"), leaf(bad))]);
      for _ in 0..d {
        x = Doc::Map(vec![(t("next"), x), (t("v"), Doc::Int(1))]);
      }
      ("root = { ? next: root, v: int }\n".into(), x, "map-value")
    }
    2 => {
      let mut x = leaf(bad);
      for i in 0..d {
        x = Doc::Map(vec![(Doc::Text(format!("k{}", i % 3)), x), (t("z"), Doc::Int(0))]);
      }
      ("root = { * tstr => root } / int\n".into(), x, "table")
    }
    3 => {
      let mut x = Doc::Array(vec![leaf(bad), Doc::Array(vec![])]);
      for _ in 0..d {
        x = Doc::Array(vec![Doc::Int(1), Doc::Array(vec![x.clone(), Doc::Array(vec![Doc::Int(2), Doc::Array(vec![])])])]);
        if let Doc::Array(a) = &x {
          if a.len() > 2 {
            break;
          }
        }
      }
      ("tree = [val: int, kids: [* tree]]\n".into(), x, "named-array-tree")
    }
    4 => {
      // binary tree: 2^depth nodes, keep it small
      fn node(depth: usize, bad: bool) -> Doc {
        if depth == 0 {
          return Doc::Map(vec![(t("v"), if bad { t("x") } else { Doc::Int(0) })]);
        }
        Doc::Map(vec![(t("v"), Doc::Int(depth as i128)), (t("l"), node(depth - 1, false)), (t("r"), node(depth - 1, bad))])
      }
      ("root = node\nnode = { v: int, ? l: node, ? r: node }\n".into(), node(d.min(7), bad), "binary-tree")
    }
    5 => {
      let mut x = Doc::Array(vec![Doc::Int(1)]);
      if bad {
        x = Doc::Array(vec![t("x")]);
      }
      for _ in 0..d {
        x = Doc::Array(vec![Doc::Int(1), x]);
      }
      ("root = [* item]\nitem = int / holder\nholder = [g]\ng = (int, ? item)\n".into(), Doc::Array(vec![Doc::Int(3), x]), "group-ref-in-array")
    }
    6 => {
      let mut x = leaf(bad);
      for _ in 0..d.min(32) {
        x = Doc::Tag(99, Box::new(x));
      }
      ("root = #6.99(root) / int\n".into(), x, "tag")
    }
    7 => {
      let mut x = leaf(bad);
      for _ in 0..d {
        x = Doc::Array(vec![x]);
      }
      ("root = wrap<root> / int\nwrap<T> = [T]\n".into(), x, "generic")
    }
    8 => {
      let mut x = Doc::Null;
      if bad {
        x = t("x");
      }
      for _ in 0..d {
        x = Doc::Array(vec![Doc::Map(vec![(t("x"), x)])]);
      }
      ("root = a\na = [* b] / nil\nb = { x: a }\n".into(), x, "mutual")
    }
    9 => {
      let mut x = Doc::Null;
      if bad {
        x = Doc::Int(1);
      }
      for i in 0..d {
        x = Doc::Array(vec![Doc::Int(i as i128), x]);
      }
      ("list = nil / [int, list]\n".into(), x, "cons-list")
    }
    10 => {
      let mut x = Doc::Map(vec![(t("kind"), t("leaf")), (t("v"), leaf(bad))]);
      // with a failing leaf the CBOR validator needs ~1.7^depth steps today (known finding, measured by the
      // growth series): keep the random phase out of the watchdog
      for _ in 0..(if bad { d.min(10) } else { d }) {
        x = Doc::Map(vec![(t("kind"), t("node")), (t("kids"), Doc::Array(vec![x.clone(), Doc::Map(vec![(t("kind"), t("leaf")), (t("v"), Doc::Int(1))])]))]);
        if d > 10 {
          // keep the size linear: only one child recurses
          if let Doc::Map(m) = &mut x {
            if let Doc::Array(k) = &mut m[1].1 {
              k.truncate(1);
            }
          }
        }
      }
      ("root = { kind: \"leaf\", v: int } / { kind: \"node\", kids: [* root] }\n".into(), x, "choice-of-maps")
    }
    _ => {
      let mut x = leaf(bad);
      for _ in 0..d {
        x = Doc::Array(vec![t("s"), x]);
      }
      ("root = [* (tstr / inner)]\ninner = root / int\n".into(), x, "choice-in-group")
    }
  }
}

// ------------------------------------------------------------------------------------------------
// numeric edges: ranges with reversed / float / huge bounds, comparison controls across int / float /
// bignum, bignum and decimal-fraction tags with unusual payloads, floats with special values

pub fn numeric_edge_case(r: &mut Rng) -> (String, Doc) {
  let big = |n: usize, b: u8| Doc::Bytes(vec![b; n]);
  let ints: Vec<Doc> = [0i128, 1, -1, 23, 24, 255, 256, 65535, 65536, 4294967295, 4294967296, 9223372036854775807, 9223372036854775808, 18446744073709551615, -9223372036854775808, -9223372036854775809, -18446744073709551616]
    .iter()
    .map(|n| Doc::Int(*n))
    .collect();
  let floats: Vec<Doc> = [0.0f64, -0.0, 1.5, -1.5, 1e300, -1e300, 5e-324, f64::INFINITY, f64::NEG_INFINITY, f64::NAN, 9007199254740993.0, 1.7976931348623157e308, 65504.0, 3.4028234663852886e38]
    .iter()
    .map(|x| Doc::Float(*x))
    .collect();
  let payloads: Vec<Doc> = vec![
    Doc::Tag(2, Box::new(big(0, 0))),
    Doc::Tag(2, Box::new(big(1, 0))),
    Doc::Tag(2, Box::new(big(8, 0xff))),
    Doc::Tag(2, Box::new(big(9, 0xff))),
    Doc::Tag(2, Box::new(big(64, 0x80))),
    Doc::Tag(3, Box::new(big(0, 0))),
    Doc::Tag(3, Box::new(big(16, 0xff))),
    Doc::Tag(2, Box::new(Doc::Int(1))),
    Doc::Tag(4, Box::new(Doc::Array(vec![Doc::Int(-2), Doc::Int(27315)]))),
    Doc::Tag(4, Box::new(Doc::Array(vec![Doc::Int(1)]))),
    Doc::Tag(4, Box::new(Doc::Array(vec![Doc::Int(1), Doc::Int(2), Doc::Int(3)]))),
    Doc::Tag(4, Box::new(Doc::Array(vec![Doc::Text("a".into()), Doc::Int(2)]))),
    Doc::Tag(4, Box::new(Doc::Array(vec![Doc::Int(18446744073709551615), Doc::Tag(2, Box::new(big(12, 0xff)))]))),
    Doc::Tag(5, Box::new(Doc::Array(vec![Doc::Int(-9223372036854775808), Doc::Int(3)]))),
    Doc::Tag(5, Box::new(Doc::Array(vec![]))),
    Doc::Tag(4, Box::new(Doc::Null)),
    Doc::Tag(1, Box::new(Doc::Float(f64::NAN))),
    Doc::Tag(1, Box::new(Doc::Float(1e300))),
    Doc::Tag(1, Box::new(Doc::Int(-9223372036854775808))),
    Doc::Tag(0, Box::new(Doc::Text("9999-99-99T99:99:99Z".into()))),
  ];
  let bounds = ["0", "1", "-1", "5", "1.5", "-1.5", "1e300", "-1e300", "18446744073709551615", "-18446744073709551616", "9223372036854775807", "-9223372036854775808", "0.0", "-0.0", "1e400", "0x10", "0x1p4"];
  let a = *r.pick(&bounds);
  let b = *r.pick(&bounds);
  let schema = match r.below(12) {
    0 => format!("root = {}..{}\n", a, b),
    1 => format!("root = {}...{}\n", a, b),
    2 => format!("root = int .lt {} / float .ge {}\n", a, b),
    3 => format!("root = number .gt {} / number .le {}\n", a, b),
    4 => format!("root = uint .eq {} / nint .ne {}\n", a, b),
    5 => "root = biguint / bignint / bigint\n".to_string(),
    6 => "root = decfrac / bigfloat\n".to_string(),
    7 => "root = #6.2(bstr) / #6.3(bstr) / #6.4([int, int]) / #6.5([int, integer])\n".to_string(),
    8 => "root = integer / unsigned / time / tdate\n".to_string(),
    9 => format!("root = float16 / float32 / float64 .ge {}\n", a),
    10 => format!("root = (int .plus {}) / (float .plus {})\n", a, b),
    _ => format!("root = [* ({}..{} / bigint / decfrac / float16-32)]\n", a, b),
  };
  let pick = |r: &mut Rng| -> Doc {
    match r.below(3) {
      0 => r.pick(&ints).clone(),
      1 => r.pick(&floats).clone(),
      _ => r.pick(&payloads).clone(),
    }
  };
  let doc = if schema.contains("[*") { Doc::Array((0..r.range(1, 5)).map(|_| pick(r)).collect()) } else { pick(r) };
  (schema, doc)
}

// ------------------------------------------------------------------------------------------------
// control-operator matrix: every registered control with plausible and awkward controllers, applied to the
// target types it is meant for (and some it is not), against documents with non-ASCII text, boundary
// lengths and edge numbers

const NONASCII_TEXTS: &[&str] = &["", "a", "abc", "ééé", "日本", "😀", "€", "é\"q", "日\\本", "ß\nz", "😀\t€", "\"é\"", "a\\é\"", "a\u{301}", "ｆｕｌｌ", "\u{feff}x", "Ωmega-3", "ß", "12", "-7", "0", "1e3", "SGVsbG8", "68656c6c6f", "00ff", "JBSWY3DP", "A B", "%", "%%", "%d", "\n", "\t"];

pub fn control_matrix_case(r: &mut Rng) -> (String, Doc) {
  let lit = |s: &str| cddl_text_literal(s);
  let t1 = *r.pick(NONASCII_TEXTS);
  let t2 = *r.pick(NONASCII_TEXTS);
  let n1 = *r.pick(&["0", "1", "2", "3", "5", "7", "8", "9", "16", "63", "64", "65", "255", "256", "-1", "18446744073709551615"]);
  let n2 = *r.pick(&["0", "1", "2", "4", "5", "10", "64", "100"]);
  let fmt = *r.pick(&["%2s", "%3s", "%4s", "%6s", "%03s", "%3c", "%-4s|%4s", "%d", "%5d", "%-5d", "%05d", "%x", "%X", "%o", "%c", "%2c", "%s", "%5s", "%-5s", "%04s", "%10s", "%.2s", "%e", "%f", "%.3f", "%g", "%%", "%5%", "%", "%q", "%ld", "%*d", "%1$s", "%s %s", "%d-%s", "x%sy%dz", "%3s|%-3s|"]);
  // the pattern controls get a larger share: their error paths echo the rejected text
  let row = {
    let k = r.below(34);
    if k >= 30 {
      5
    } else {
      k
    }
  };
  let (target, ctrl, controller): (String, &str, String) = match row {
    0 => ("tstr".into(), ".size", n1.to_string()),
    1 => ("bstr".into(), ".size", format!("({}..{})", n2, n1)),
    2 => ("uint".into(), ".size", n2.to_string()),
    3 => ("uint".into(), ".bits", format!("&(a: {}, b: {}, c: 63, d: 64)", n2, n1)),
    4 => ("bstr".into(), ".bits", format!("&(a: {}, b: {})", n1, n2)),
    5 => ("tstr".into(), *r.pick(&[".regexp", ".pcre", ".iregexp"]), lit(*r.pick(&["", ".", "é+", "[日本]+", "^\\p{L}+$", "(?i)ß", "a{2}", "\\d+", "(a|b)*c", "^$", "[", "(?<x>a)\\k<x>", "\\u{1F600}"]))),
    6 => ("bstr".into(), *r.pick(&[".cbor", ".cborseq"]), (*r.pick(&["int", "[* int]", "{ a: tstr }", "any", "tstr .size 2"])).to_string()),
    7 => ("int".into(), *r.pick(&[".lt", ".le", ".gt", ".ge", ".eq", ".ne"]), n1.to_string()),
    8 => ("tstr".into(), *r.pick(&[".eq", ".ne", ".default"]), lit(t1)),
    9 => (lit(t1), *r.pick(&[".cat", ".det"]), lit(t2)),
    10 => (format!("'{}'", t1.replace('\'', "").replace('\\', "").replace('\n', "").replace('\t', "")), *r.pick(&[".cat", ".det"]), lit(t2)),
    11 => (lit(t1), ".cat", format!("({} .det {})", lit(t2), lit("\n  x\n  y"))),
    12 => (n2.to_string(), ".plus", n1.to_string()),
    13 => ("tstr".into(), *r.pick(&[".abnf", ".abnfb"]), lit(*r.pick(&["r\nr = 1*DIGIT\n", "r\nr = *(%x00-10FFFF)\n", "r\nr = \"é\"\n", "r\nr = %xE9\n", "r\nr = 2*3ALPHA / \"-\"\n", "r\nr = <prose>\n", "r\nr = r2\nr2 = *r2\n"]))),
    14 => ("bstr".into(), ".abnfb", lit("r\nr = 1*%x00-FF\n")),
    15 => ("tstr".into(), *r.pick(&[".b64u", ".b64c", ".b64u-sloppy", ".b64c-sloppy", ".hex", ".hexlc", ".hexuc", ".b32", ".h32", ".b45"]), (*r.pick(&["bstr", "'hello'", "h'00ff'", "bytes .size 2", "''"])).to_string()),
    16 => ("tstr".into(), ".base10", (*r.pick(&["int", "uint", "5", "-7", "0", "18446744073709551615", "1.5"])).to_string()),
    17 => ("tstr".into(), ".printf", format!("[{}, {}]", lit(fmt), lit(t1))),
    18 => ("tstr".into(), ".printf", format!("[{}, {}]", lit(fmt), n1)),
    19 => ("tstr".into(), ".printf", format!("[{}, {}, {}]", lit(fmt), lit(t1), *r.pick(&["8364", "128512", "65", "0", "-1", "1114112", "55296"]))),
    20 => ("tstr".into(), ".printf", format!("[{}]", lit(fmt))),
    21 => ("tstr".into(), ".json", (*r.pick(&["int", "[* int]", "{ a: tstr }", "any", "tstr"])).to_string()),
    22 => ("tstr".into(), ".join", format!("[{}, {}, {}]", lit(t1), lit(t2), lit(*r.pick(NONASCII_TEXTS)))),
    23 => ("tstr".into(), ".join", (*r.pick(&["[]", "[* tstr]", "[\"a\", tstr, \"b\"]", "[1, 2]", "['x', 'y']"])).to_string()),
    24 => ("bstr".into(), ".join", format!("['{}', h'00ff', 'z']", "ab")),
    25 => ("tstr".into(), *r.pick(&[".within", ".and"]), (*r.pick(&["tstr .size 3", "text .regexp \"a+\"", "int", "\"abc\" / \"ééé\""])).to_string()),
    26 => ("uint".into(), *r.pick(&[".within", ".and"]), format!("0..{}", n1)),
    27 => ("tstr".into(), ".feature", (*r.pick(&["\"featx\"", "[\"featx\", 1]", "\"\"", "\"é\""])).to_string()),
    28 => ("int".into(), ".default", n1.to_string()),
    _ => ("tstr".into(), *r.pick(&[".size", ".bits", ".lt", ".cbor", ".plus", ".b64u", ".printf", ".join", ".base10"]), (*r.pick(&["tstr", "nil", "[]", "{}", "1.5", "-1", "\"x\"", "h''"])).to_string()),
  };
  let schema = match r.below(4) {
    0 => format!("root = [* item]\nitem = {} {} {}\n", target, ctrl, controller),
    1 => format!("root = {{ * tstr => v }}\nv = ({} {} {}) / nil\n", target, ctrl, controller),
    _ => format!("root = {} {} {}\n", target, ctrl, controller),
  };
  let mut vals: Vec<Doc> = Vec::new();
  for _ in 0..r.range(1, 4) {
    vals.push(match r.below(6) {
      0 => Doc::Text((*r.pick(NONASCII_TEXTS)).to_string()),
      1 | 2 => Doc::Text(if target == "tstr" && (r.coin() || row == 5) { boundary_doc_text(r) } else { (*r.pick(NONASCII_TEXTS)).to_string() }),
      3 => Doc::Int(*r.pick(&[0i128, 1, 5, 7, 9, 63, 64, 255, 256, -1, 18446744073709551615, -9223372036854775808])),
      4 => Doc::Bytes(match r.below(4) {
        0 => vec![],
        1 => vec![0x01],
        2 => vec![0x82, 0x01],
        _ => (0..r.range(1, 9)).map(|_| r.byte()).collect(),
      }),
      _ => Doc::Float(*r.pick(&[0.5, -0.0, 1e300, f64::NAN])),
    });
  }
  let doc = if schema.starts_with("root = [*") {
    Doc::Array(vals)
  } else if schema.starts_with("root = {") {
    Doc::Map(vals.into_iter().enumerate().map(|(i, v)| (Doc::Text(format!("k{}", i)), v)).collect())
  } else {
    vals.remove(0)
  };
  (schema, doc)
}

// ------------------------------------------------------------------------------------------------
// occurrence arithmetic and map-entry bookkeeping: reversed / zero / huge occurrence bounds against arrays
// of every small length; the same key matched by two schema entries; optional entries followed by
// wildcards; CBOR maps with duplicate keys; empty containers in odd positions

/// (schema, JSON-able document, raw CBOR override). The CBOR override carries what JSON cannot: duplicate keys.
pub fn occurrence_edge_case(r: &mut Rng) -> (String, Doc, Option<Vec<u8>>) {
  let occ = *r.pick(&["3*1", "0*0", "1*1", "2*2", "0*1", "5*", "*0", "18446744073709551615*", "*18446744073709551615", "2*18446744073709551615", "9223372036854775808*9223372036854775807", "+", "?", "*"]);
  let occ2 = *r.pick(&["?", "*", "+", "0*0", "1*2", "2*1"]);
  let n = r.below(7);
  let arr = Doc::Array((0..n).map(|i| if r.chance(1, 5) { Doc::Text("s".into()) } else { Doc::Int(i as i128) }).collect());
  let small_map = |r: &mut Rng| -> Doc {
    let k = r.below(4);
    Doc::Map((0..k).map(|i| (Doc::Text((*r.pick(&["a", "b", "c", ""])).to_string() + if r.coin() { "" } else { "x" }), if i % 2 == 0 { Doc::Int(i as i128) } else { Doc::Text("v".into()) })).collect())
  };
  match r.below(10) {
    0 => (format!("root = [ {} int ]\n", occ), arr, None),
    1 => (format!("root = [ {} int, {} tstr ]\n", occ, occ2), arr, None),
    2 => (format!("root = [ {} (int, tstr), {} int ]\n", occ, occ2), arr, None),
    3 => (format!("root = [ {} [ {} int ] ]\n", occ, occ2), Doc::Array(vec![arr.clone(), Doc::Array(vec![]), arr]), None),
    4 => (format!("root = {{ {} tstr => int }}\n", occ), small_map(r), None),
    5 => (format!("root = {{ ? a: int, {} tstr => any }}\n", occ2), small_map(r), None),
    6 => ("root = { a: int, a: tstr }\n".to_string(), small_map(r), None),
    7 => (format!("root = {{ {} tstr => int, {} tstr => tstr }}\n", occ2, occ), small_map(r), None),
    8 => {
      // CBOR maps with duplicate keys (JSON cannot carry them): {"a": 1, "a": "v"}, {"a": 1, "a": 1, "b": 2}, {1: 1, 1: 2}
      let raw: Vec<u8> = match r.below(4) {
        0 => vec![0xa2, 0x61, 0x61, 0x01, 0x61, 0x61, 0x61, 0x76],
        1 => vec![0xa3, 0x61, 0x61, 0x01, 0x61, 0x61, 0x01, 0x61, 0x62, 0x02],
        2 => vec![0xa2, 0x01, 0x01, 0x01, 0x02],
        _ => vec![0xbf, 0x61, 0x61, 0x01, 0x61, 0x61, 0x02, 0x61, 0x61, 0x03, 0xff],
      };
      let schema = *r.pick(&["root = { a: int, ? a: tstr }\n", "root = { * tstr => int }\n", "root = { a: int }\n", "root = { ? a: int, * tstr => any }\n", "root = { 1: int, ? 1: int }\n", "root = { + tstr => int / tstr }\n"]);
      (schema.to_string(), Doc::Map(vec![(Doc::Text("a".into()), Doc::Int(1))]), Some(raw))
    }
    _ => (
      format!("root = {{ list: [ {} item ], ? empty: [] / {{}} }}\nitem = [] / {{}} / int\n", occ),
      Doc::Map(vec![(Doc::Text("list".into()), Doc::Array(vec![Doc::Array(vec![]), Doc::Map(vec![]), Doc::Int(1)])), (Doc::Text("empty".into()), if r.coin() { Doc::Array(vec![]) } else { Doc::Map(vec![]) })]),
      None,
    ),
  }
}
