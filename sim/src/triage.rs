//! Post-run triage shared by the checks: grouping, death classification, confirmation in isolation,
//! minimisation of byte-string worlds.

use crate::kernel::*;
use crate::minimize::{ddmin, simplify, Budget};
use serde_json::Value;

/// One representative (lowest run index) per (class, signature), with the number of occurrences.
pub fn group(violations: &[(u64, Violation)]) -> Vec<(u64, Violation, u64)> {
  let mut out: Vec<(u64, Violation, u64)> = Vec::new();
  for (i, v) in violations {
    if let Some(e) = out.iter_mut().find(|e| e.1.class == v.class && e.1.signature == v.signature) {
      e.2 += 1;
    } else {
      out.push((*i, v.clone(), 1));
    }
  }
  out
}

pub fn death_class(how: &str, stderr: &str) -> &'static str {
  if how == "timeout" {
    "hang"
  } else if stderr.contains("SIM-ALLOC-REFUSED") || stderr.contains("memory allocation of") {
    "abort-on-allocation"
  } else if stderr.contains("has overflowed its stack") || how == "signal:11" {
    "stack-overflow"
  } else if how == "signal:6" {
    "abort"
  } else if how == "ok" {
    "ok"
  } else {
    "died"
  }
}

/// Does executing `world` alone reproduce a violation of the same class and signature (for process
/// deaths: the same death class)?
pub fn reproduces(check: &str, world: &Value, class: &str, signature: &str, watchdog_s: u64) -> bool {
  let r = exec_isolated(check, world, watchdog_s);
  if r.died() {
    return death_class(&r.how, &r.stderr) == class;
  }
  r.violations.iter().any(|v| v.class == class && v.signature == signature)
}

/// Minimise the hex byte string stored under `key` of the violation's world, keeping class + signature.
pub fn minimise_bytes(check: &str, v: &Violation, key: &str, watchdog_s: u64) -> Violation {
  let bytes = unhex(v.world[key].as_str().unwrap_or(""));
  if bytes.len() <= 1 {
    return v.clone();
  }
  let mut budget = Budget::new(400, 60);
  let mk = |b: &[u8]| -> Value {
    let mut w = v.world.clone();
    w[key] = Value::String(hex(b));
    w
  };
  let mut pred = |b: &[u8]| reproduces(check, &mk(b), &v.class, &v.signature, watchdog_s);
  if !pred(&bytes) {
    // does not reproduce in isolation: report as found, unminimised
    return v.clone();
  }
  let small = ddmin(bytes, &mut budget, &mut pred);
  let small = simplify(small, &|b: &u8| vec![0u8, b & 0xe0, b & 0xf0], &mut budget, &mut pred);
  let mut out = v.clone();
  out.world = mk(&small);
  // refresh the detail from an execution of the minimised world
  let r = exec_isolated(check, &out.world, watchdog_s);
  if let Some(m) = r.violations.iter().find(|x| x.class == v.class && x.signature == v.signature) {
    out.detail = m.detail.clone();
  }
  out
}
