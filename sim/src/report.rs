//! Turning an aggregate into the interface the harness expects: KNOWN-FINDING / VIOLATION lines,
//! replay files, the evidence file and the exit status.

use crate::kernel::{Agg, Tier, Violation};
use serde_json::{json, Value};
use std::collections::BTreeMap;
use std::path::PathBuf;

pub fn verif_dir() -> PathBuf {
  PathBuf::from(std::env::var("VERIF_DIR").unwrap_or_else(|_| "/verif".to_string()))
}

#[derive(Clone, Debug)]
pub struct Known {
  pub property: String,
  pub id: String,
  pub status: String,
  pub class: String,
  pub signature: String,
  pub predicate: Option<String>,
  pub what: String,
  pub reproducer: Value,
}

/// `*` in a known finding's signature matches any run of characters.
pub fn sig_matches(pattern: &str, sig: &str) -> bool {
  if !pattern.contains('*') {
    return pattern == sig;
  }
  let parts: Vec<&str> = pattern.split('*').collect();
  let mut pos = 0usize;
  for (i, part) in parts.iter().enumerate() {
    if part.is_empty() {
      continue;
    }
    if i == 0 {
      if !sig.starts_with(part) {
        return false;
      }
      pos = part.len();
    } else if i == parts.len() - 1 {
      return sig.len() >= pos + part.len() && sig[pos..].ends_with(part);
    } else {
      match sig[pos..].find(part) {
        Some(k) => pos += k + part.len(),
        None => return false,
      }
    }
  }
  true
}

impl Known {
  pub fn matches(&self, property: &str, v: &Violation, pred: &dyn Fn(&str, &Violation) -> bool) -> bool {
    self.status == "known"
      && self.property == property
      && self.class.split('|').any(|c| c == v.class)
      && sig_matches(&self.signature, &v.signature)
      && self.predicate.as_ref().map(|p| pred(p, v)).unwrap_or(true)
  }
}

pub fn load_known() -> Result<Vec<Known>, String> {
  let p = verif_dir().join("known_findings.json");
  let s = std::fs::read_to_string(&p).map_err(|e| format!("{}: {}", p.display(), e))?;
  let v: Value = serde_json::from_str(&s).map_err(|e| format!("{}: {}", p.display(), e))?;
  let mut out = Vec::new();
  for f in v["findings"].as_array().cloned().unwrap_or_default() {
    out.push(Known {
      property: f["property"].as_str().unwrap_or("").into(),
      id: f["id"].as_str().unwrap_or("").into(),
      status: f["status"].as_str().unwrap_or("").into(),
      class: f["class"].as_str().unwrap_or("").into(),
      signature: f["signature"].as_str().unwrap_or("").into(),
      predicate: f["predicate"].as_str().map(|s| s.to_string()),
      what: f["what"].as_str().unwrap_or("").into(),
      reproducer: f["reproducer"].clone(),
    });
  }
  Ok(out)
}

/// A violation after confirmation / minimisation, ready to be reported.
pub struct Finding {
  pub run: u64,
  pub violation: Violation,
}

pub struct Report {
  pub property: &'static str,
  pub check: &'static str,
  pub seed: u64,
  pub tier: Tier,
  pub level: &'static str,
  pub rule: String,
  pub assumptions: Vec<String>,
  pub real_components: Vec<String>,
  pub stub_components: Vec<String>,
  pub extra: BTreeMap<String, Value>,
}

/// `pred(predicate name, violation)` decides a known entry's predicate on the minimised world.
pub fn finish(
  rep: &Report,
  agg: &Agg,
  findings: Vec<Finding>,
  wall_s: f64,
  exhaustive: Option<bool>,
  pred: &dyn Fn(&str, &Violation) -> bool,
) -> i32 {
  let known = match load_known() {
    Ok(k) => k,
    Err(e) => {
      eprintln!("HARNESS-ERROR: cannot read known findings: {}", e);
      return 2;
    }
  };
  let mut exit = 0;
  let mut known_hit: BTreeMap<String, (String, u64)> = BTreeMap::new();
  let mut new_violations = 0u64;
  let mut reported: BTreeMap<(String, String), ()> = BTreeMap::new();
  let _ = std::fs::create_dir_all(verif_dir().join("replays"));
  for f in &findings {
    let v = &f.violation;
    let m = known.iter().find(|k| k.matches(rep.property, v, pred));
    if let Some(k) = m {
      let e = known_hit.entry(k.id.clone()).or_insert((k.what.clone(), 0));
      e.1 += 1;
      continue;
    }
    new_violations += 1;
    // one replay file per (class, signature)
    if reported.insert((v.class.clone(), v.signature.clone()), ()).is_some() {
      continue;
    }
    let path = verif_dir().join("replays").join(format!("{}-{}-{}.json", rep.check, rep.seed, f.run));
    let body = json!({
      "property": rep.property,
      "check": rep.check,
      "seed": rep.seed,
      "run": f.run,
      "violation": {"class": v.class, "signature": v.signature, "detail": v.detail},
      "world": v.world,
    });
    if let Err(e) = std::fs::write(&path, serde_json::to_string_pretty(&body).unwrap()) {
      eprintln!("HARNESS-ERROR: cannot write {}: {}", path.display(), e);
      return 2;
    }
    println!("  violation class={} signature={} :: {}", v.class, v.signature, v.detail);
    println!("VIOLATION property={} replay={}", rep.property, path.display());
    exit = 1;
  }
  for (id, (what, n)) in &known_hit {
    println!("KNOWN-FINDING: property={} {} [{}; seen {}x in this run]", rep.property, what, id, n);
  }
  if !agg.harness_errors.is_empty() {
    for e in agg.harness_errors.iter().take(10) {
      eprintln!("HARNESS-ERROR: {}", e);
    }
    if exit == 0 {
      exit = 2;
    }
  }
  // evidence
  let samples: Vec<Value> = agg.samples.iter().take(6).map(|(i, v)| json!({"run": i, "case": v})).collect();
  let mut coverage = serde_json::Map::new();
  coverage.insert("evaluations".into(), json!(agg.evaluations));
  coverage.insert("distinct_nontrivial".into(), json!(agg.distinct.len()));
  coverage.insert("rule".into(), json!(rep.rule));
  coverage.insert("samples".into(), json!(samples));
  if let Some(x) = exhaustive {
    coverage.insert("exhaustive".into(), json!(x));
  }
  coverage.insert("library_operations".into(), json!(agg.ops));
  coverage.insert("fault_counts".into(), json!(agg.faults));
  coverage.insert("probes".into(), json!(agg.probes));
  coverage.insert("children_spawned".into(), json!(agg.children));
  coverage.insert("children_died".into(), json!(agg.deaths.len()));
  coverage.insert(
    "runs_per_hour".into(),
    json!(if wall_s > 0.0 { (agg.evaluations as f64 / wall_s * 3600.0) as u64 } else { 0 }),
  );
  coverage.insert("seeds".into(), json!(format!("VERIF_SEED={} x run index 0..{}", rep.seed, agg.evaluations)));
  coverage.insert("simulated_time".into(), json!("n/a - the system under test has no clock, timer or timeout"));
  coverage.insert("real_components".into(), json!(rep.real_components));
  coverage.insert("stub_components".into(), json!(rep.stub_components));
  coverage.insert(
    "known_findings_seen".into(),
    json!(known_hit.iter().map(|(k, v)| (k.clone(), v.1)).collect::<BTreeMap<_, _>>()),
  );
  for (k, v) in &rep.extra {
    coverage.insert(k.clone(), v.clone());
  }
  let ev = json!({
    "property_id": rep.property,
    "tier": rep.tier.as_str(),
    "seed": rep.seed,
    "level": rep.level,
    "coverage": Value::Object(coverage),
    "assumptions": rep.assumptions,
    "wall_s": (wall_s * 100.0).round() / 100.0,
    "violations": new_violations,
  });
  let dir = verif_dir().join("evidence");
  let _ = std::fs::create_dir_all(&dir);
  let path = dir.join(format!("{}.json", rep.property));
  if let Err(e) = std::fs::write(&path, serde_json::to_string_pretty(&ev).unwrap()) {
    eprintln!("HARNESS-ERROR: cannot write {}: {}", path.display(), e);
    return 2;
  }
  println!(
    "{} {} seed={} runs={} ops={} distinct_nontrivial={} deaths={} new_violations={} known={} wall={:.1}s",
    rep.property,
    rep.tier.as_str(),
    rep.seed,
    agg.evaluations,
    agg.ops,
    agg.distinct.len(),
    agg.deaths.len(),
    new_violations,
    known_hit.len(),
    wall_s
  );
  exit
}
