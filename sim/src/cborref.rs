//! Executable reference model of RFC 8949 well-formedness and data-model values, written from §3 and
//! the `well_formed` pseudo-code of Appendix C; plus a reference *encoder* that makes random encoding
//! choices (non-minimal heads, indefinite lengths, chunking), used to write items to the simulated medium.

use crate::rng::Rng;

#[derive(Clone, Debug, PartialEq)]
pub enum MV {
  UInt(u64),
  /// the number -1 - n
  NInt(u64),
  Bytes(Vec<u8>),
  Text(String),
  Array(Vec<MV>),
  Map(Vec<(MV, MV)>),
  Tag(u64, Box<MV>),
  Simple(u8),
  /// f64 bits; all NaNs are represented as `NAN_BITS`
  Float(u64),
}

pub const NAN_BITS: u64 = 0x7ff8_0000_0000_0000;

pub fn fbits(f: f64) -> u64 {
  if f.is_nan() {
    NAN_BITS
  } else {
    f.to_bits()
  }
}

#[derive(Clone, Debug, PartialEq)]
pub enum RefErr {
  Truncated,
  ReservedAi,
  IndefiniteNotAllowed,
  UnexpectedBreak,
  BadChunk,
  BadSimple,
  BadUtf8,
  TooDeep,
}

/// IEEE 754 half -> double, by hand (no dependency on the `half` crate the decoder under test uses).
pub fn half_to_f64(h: u16) -> f64 {
  let sign = if h & 0x8000 != 0 { -1.0 } else { 1.0 };
  let exp = ((h >> 10) & 0x1f) as i32;
  let mant = (h & 0x3ff) as f64;
  let v = if exp == 0 {
    mant * (2.0f64).powi(-24)
  } else if exp == 31 {
    if mant == 0.0 {
      f64::INFINITY
    } else {
      f64::NAN
    }
  } else {
    (1.0 + mant / 1024.0) * (2.0f64).powi(exp - 15)
  };
  sign * v
}

struct Rd<'a> {
  b: &'a [u8],
  pos: usize,
}

impl<'a> Rd<'a> {
  fn u8(&mut self) -> Result<u8, RefErr> {
    let x = *self.b.get(self.pos).ok_or(RefErr::Truncated)?;
    self.pos += 1;
    Ok(x)
  }
  fn take(&mut self, n: u64) -> Result<&'a [u8], RefErr> {
    let rem = (self.b.len() - self.pos) as u64;
    if n > rem {
      return Err(RefErr::Truncated);
    }
    let s = &self.b[self.pos..self.pos + n as usize];
    self.pos += n as usize;
    Ok(s)
  }
  fn arg(&mut self, ai: u8) -> Result<u64, RefErr> {
    match ai {
      0..=23 => Ok(ai as u64),
      24 => Ok(self.u8()? as u64),
      25 => {
        let s = self.take(2)?;
        Ok(u16::from_be_bytes([s[0], s[1]]) as u64)
      }
      26 => {
        let s = self.take(4)?;
        Ok(u32::from_be_bytes([s[0], s[1], s[2], s[3]]) as u64)
      }
      27 => {
        let s = self.take(8)?;
        Ok(u64::from_be_bytes([s[0], s[1], s[2], s[3], s[4], s[5], s[6], s[7]]))
      }
      _ => Err(RefErr::ReservedAi),
    }
  }
}

pub const MAX_DEPTH: usize = 512;

fn item(r: &mut Rd, depth: usize) -> Result<MV, RefErr> {
  if depth > MAX_DEPTH {
    return Err(RefErr::TooDeep);
  }
  let ib = r.u8()?;
  let mt = ib >> 5;
  let ai = ib & 0x1f;
  if (28..=30).contains(&ai) {
    return Err(RefErr::ReservedAi);
  }
  if ai == 31 {
    return match mt {
      0 | 1 | 6 => Err(RefErr::IndefiniteNotAllowed),
      2 | 3 => {
        let mut bytes: Vec<u8> = Vec::new();
        let mut text = String::new();
        loop {
          let cb = r.u8()?;
          if cb == 0xff {
            break;
          }
          let cmt = cb >> 5;
          let cai = cb & 0x1f;
          if cmt != mt {
            return Err(RefErr::BadChunk);
          }
          if (28..=30).contains(&cai) {
            return Err(RefErr::ReservedAi);
          }
          if cai == 31 {
            return Err(RefErr::BadChunk);
          }
          let n = r.arg(cai)?;
          let s = r.take(n)?;
          if mt == 2 {
            bytes.extend_from_slice(s);
          } else {
            text.push_str(std::str::from_utf8(s).map_err(|_| RefErr::BadUtf8)?);
          }
        }
        Ok(if mt == 2 { MV::Bytes(bytes) } else { MV::Text(text) })
      }
      4 => {
        let mut v = Vec::new();
        loop {
          if *r.b.get(r.pos).ok_or(RefErr::Truncated)? == 0xff {
            r.pos += 1;
            break;
          }
          v.push(item(r, depth + 1)?);
        }
        Ok(MV::Array(v))
      }
      5 => {
        let mut v = Vec::new();
        loop {
          if *r.b.get(r.pos).ok_or(RefErr::Truncated)? == 0xff {
            r.pos += 1;
            break;
          }
          let k = item(r, depth + 1)?;
          // a break in value position is not well-formed: `item` reports UnexpectedBreak
          let val = item(r, depth + 1)?;
          v.push((k, val));
        }
        Ok(MV::Map(v))
      }
      _ => Err(RefErr::UnexpectedBreak),
    };
  }
  if mt == 7 {
    return match ai {
      0..=23 => Ok(MV::Simple(ai)),
      24 => {
        let v = r.u8()?;
        if v < 32 {
          Err(RefErr::BadSimple)
        } else {
          Ok(MV::Simple(v))
        }
      }
      25 => {
        let s = r.take(2)?;
        Ok(MV::Float(fbits(half_to_f64(u16::from_be_bytes([s[0], s[1]])))))
      }
      26 => {
        let s = r.take(4)?;
        Ok(MV::Float(fbits(f32::from_be_bytes([s[0], s[1], s[2], s[3]]) as f64)))
      }
      _ => {
        let s = r.take(8)?;
        Ok(MV::Float(fbits(f64::from_be_bytes([
          s[0], s[1], s[2], s[3], s[4], s[5], s[6], s[7],
        ]))))
      }
    };
  }
  let n = r.arg(ai)?;
  match mt {
    0 => Ok(MV::UInt(n)),
    1 => Ok(MV::NInt(n)),
    2 => Ok(MV::Bytes(r.take(n)?.to_vec())),
    3 => {
      let s = r.take(n)?;
      Ok(MV::Text(std::str::from_utf8(s).map_err(|_| RefErr::BadUtf8)?.to_string()))
    }
    4 => {
      let mut v = Vec::new();
      for _ in 0..n {
        v.push(item(r, depth + 1)?);
      }
      Ok(MV::Array(v))
    }
    5 => {
      let mut v = Vec::new();
      for _ in 0..n {
        let k = item(r, depth + 1)?;
        let val = item(r, depth + 1)?;
        v.push((k, val));
      }
      Ok(MV::Map(v))
    }
    _ => {
      let inner = item(r, depth + 1)?;
      Ok(MV::Tag(n, Box::new(inner)))
    }
  }
}

/// Reference decoder: the first data item of `b` and the number of bytes it occupies.
pub fn ref_decode(b: &[u8]) -> Result<(MV, usize), RefErr> {
  let mut r = Rd { b, pos: 0 };
  let v = item(&mut r, 0)?;
  Ok((v, r.pos))
}

/// Nesting depth of the item at the start of `b`, counted structurally without decoding values
/// (used only to keep generated workloads within the depth the check is about).
pub fn max_depth(v: &MV) -> usize {
  match v {
    MV::Array(a) => 1 + a.iter().map(max_depth).max().unwrap_or(0),
    MV::Map(m) => 1 + m.iter().map(|(k, v)| max_depth(k).max(max_depth(v))).max().unwrap_or(0),
    MV::Tag(_, t) => 1 + max_depth(t),
    _ => 0,
  }
}

// ------------------------------------------------------------------------------------------------
// mapping the crate's value back to the model

use cddl::validator::cbor_value::Value as CV;

/// Strict mapping. `undefined` cannot be represented by the crate's `Value` (it decodes to `Null`),
/// so a `Null` always maps to simple(22); see `collapse_undefined` for the known finding.
pub fn to_model(v: &CV) -> MV {
  match v {
    CV::Integer(i) => {
      let n: i128 = (*i).into();
      if n >= 0 {
        MV::UInt(n as u64)
      } else {
        MV::NInt((-1 - n) as u64)
      }
    }
    CV::Bytes(b) => MV::Bytes(b.clone()),
    CV::Float(f) => MV::Float(fbits(*f)),
    CV::Text(s) => MV::Text(s.clone()),
    CV::Bool(false) => MV::Simple(20),
    CV::Bool(true) => MV::Simple(21),
    CV::Null => MV::Simple(22),
    CV::Tag(t, inner) => MV::Tag(*t, Box::new(to_model(inner))),
    CV::Array(a) => MV::Array(a.iter().map(to_model).collect()),
    CV::Map(m) => MV::Map(m.iter().map(|(k, v)| (to_model(k), to_model(v))).collect()),
    CV::Simple(s) => MV::Simple(*s),
  }
}

/// The model value with simple(23) replaced by simple(22); returns whether anything was replaced.
pub fn collapse_undefined(v: &MV) -> (MV, bool) {
  match v {
    MV::Simple(23) => (MV::Simple(22), true),
    MV::Array(a) => {
      let mut any = false;
      let out = a
        .iter()
        .map(|x| {
          let (y, c) = collapse_undefined(x);
          any |= c;
          y
        })
        .collect();
      (MV::Array(out), any)
    }
    MV::Map(m) => {
      let mut any = false;
      let out = m
        .iter()
        .map(|(k, x)| {
          let (k2, c1) = collapse_undefined(k);
          let (x2, c2) = collapse_undefined(x);
          any |= c1 | c2;
          (k2, x2)
        })
        .collect();
      (MV::Map(out), any)
    }
    MV::Tag(t, x) => {
      let (y, c) = collapse_undefined(x);
      (MV::Tag(*t, Box::new(y)), c)
    }
    other => (other.clone(), false),
  }
}

pub fn show(v: &MV) -> String {
  match v {
    MV::UInt(n) => format!("{}", n),
    MV::NInt(n) => format!("-{}", *n as u128 + 1),
    MV::Bytes(b) => format!("h'{}'", crate::kernel::hex(b)),
    MV::Text(s) => format!("{:?}", s),
    MV::Array(a) => format!("[{}]", a.iter().map(show).collect::<Vec<_>>().join(", ")),
    MV::Map(m) => format!(
      "{{{}}}",
      m.iter().map(|(k, v)| format!("{}: {}", show(k), show(v))).collect::<Vec<_>>().join(", ")
    ),
    MV::Tag(t, x) => format!("{}({})", t, show(x)),
    MV::Simple(s) => format!("simple({})", s),
    MV::Float(b) => format!("float({:?}/0x{:016x})", f64::from_bits(*b), b),
  }
}

// ------------------------------------------------------------------------------------------------
// reference encoder with random encoding choices

pub const EDGE_U64: &[u64] = &[
  0,
  1,
  10,
  23,
  24,
  25,
  100,
  255,
  256,
  1000,
  65535,
  65536,
  1_000_000,
  0xffff_ffff,
  0x1_0000_0000,
  0x7fff_ffff_ffff_fffe,
  0x7fff_ffff_ffff_ffff,
  0x8000_0000_0000_0000,
  0x8000_0000_0000_0001,
  0xffff_ffff_ffff_fffe,
  0xffff_ffff_ffff_ffff,
];

/// Which encoding features the writer may use in this run (swarm configuration).
#[derive(Clone, Debug)]
pub struct EncCfg {
  pub nonminimal: bool,
  pub indefinite: bool,
  pub chunk_strings: bool,
  pub max_depth: usize,
  pub max_children: usize,
  pub floats: bool,
  pub tags: bool,
  pub simples: bool,
  pub big_strings: bool,
  /// strings whose length sits on a buffer-size boundary (255/256, 4096 k, 65536), with a multi-byte
  /// character straddling the boundary
  pub boundary_strings: bool,
}

impl EncCfg {
  pub fn swarm(r: &mut Rng) -> EncCfg {
    EncCfg {
      nonminimal: r.chance(2, 3),
      indefinite: r.chance(2, 3),
      chunk_strings: r.chance(2, 3),
      max_depth: r.range(1, 4),
      max_children: r.range(1, 8),
      floats: r.chance(3, 4),
      tags: r.chance(3, 4),
      simples: r.chance(3, 4),
      big_strings: r.chance(1, 8),
      boundary_strings: r.chance(1, 10),
    }
  }
}

pub fn head(out: &mut Vec<u8>, mt: u8, n: u64, cfg: &EncCfg, r: &mut Rng) {
  // minimal width class
  let min_w = if n < 24 {
    0
  } else if n <= 0xff {
    1
  } else if n <= 0xffff {
    2
  } else if n <= 0xffff_ffff {
    3
  } else {
    4
  };
  let w = if cfg.nonminimal && r.chance(1, 3) { r.range(min_w, 4) } else { min_w };
  match w {
    0 => out.push(mt << 5 | n as u8),
    1 => {
      out.push(mt << 5 | 24);
      out.push(n as u8);
    }
    2 => {
      out.push(mt << 5 | 25);
      out.extend_from_slice(&(n as u16).to_be_bytes());
    }
    3 => {
      out.push(mt << 5 | 26);
      out.extend_from_slice(&(n as u32).to_be_bytes());
    }
    _ => {
      out.push(mt << 5 | 27);
      out.extend_from_slice(&n.to_be_bytes());
    }
  }
}

fn gen_u64(r: &mut Rng) -> u64 {
  match r.below(4) {
    0 => *r.pick(EDGE_U64),
    1 => r.below(300) as u64,
    2 => 1u64 << r.below(64),
    _ => r.next_u64() >> r.below(64),
  }
}

const TEXT_ATOMS: &[&str] = &[
  "a", "b", "z", "0", " ", "\"", "\\", "/", "\n", "\u{0}", "é", "ß", "€", "水", "😀", "\u{10ffff}", "key", "IETF",
  "\u{7f}", "\u{80}", "\u{7ff}", "\u{800}", "\u{ffff}", "\u{10000}",
];

const BOUNDARIES: &[usize] = &[24, 256, 4096, 8192, 12288, 16384];

/// A text whose UTF-8 length is near a boundary B, with a 2-4 byte character placed so that it starts
/// up to 3 bytes before a multiple of B (and so straddles it), padded with ASCII.
fn boundary_text(r: &mut Rng) -> String {
  let b = *r.pick(BOUNDARIES);
  let total = b + r.below(60);
  let mut s = String::with_capacity(total + 8);
  let atom = *r.pick(&["é", "€", "😀", "水", "\u{7ff}", "\u{10ffff}"]);
  let start = b.saturating_sub(r.range(1, atom.len().max(2) - 1));
  while s.len() < start {
    s.push(if r.chance(1, 50) { 'é' } else { 'a' });
    if s.len() > start {
      // overshot by a multi-byte filler: back off to ASCII
      s.pop();
      s.push('a');
    }
  }
  s.push_str(atom);
  while s.len() < total {
    s.push('b');
  }
  s
}

fn gen_text(r: &mut Rng, cfg: &EncCfg) -> String {
  if cfg.boundary_strings && r.chance(1, 5) {
    return boundary_text(r);
  }
  let n = if cfg.big_strings && r.chance(1, 4) { r.range(20, 300) } else { r.below(7) };
  let mut s = String::new();
  for _ in 0..n {
    s.push_str(*r.pick::<&str>(TEXT_ATOMS));
  }
  s
}

fn gen_bytes(r: &mut Rng, cfg: &EncCfg) -> Vec<u8> {
  if cfg.boundary_strings && r.chance(1, 5) {
    let b = *r.pick(BOUNDARIES);
    let n = (b + r.below(5)).saturating_sub(2);
    return (0..n).map(|i| (i % 251) as u8).collect();
  }
  let n = if cfg.big_strings && r.chance(1, 4) { r.range(20, 300) } else { r.below(7) };
  (0..n).map(|_| if r.chance(1, 4) { *r.pick(&[0u8, 0xff, 0x5f, 0x7f, 0x9f, 0xbf, 0xf8, 0x1c]) } else { r.byte() }).collect()
}

const F16_EDGES: &[u16] = &[
  0x0000, 0x8000, 0x3c00, 0xbc00, 0x7c00, 0xfc00, 0x7e00, 0x7e01, 0xfe00, 0x0001, 0x03ff, 0x0400, 0x7bff, 0x3555, 0xc000,
];
const F32_EDGES: &[u32] = &[
  0x0000_0000, 0x8000_0000, 0x3f80_0000, 0x7f80_0000, 0xff80_0000, 0x7fc0_0000, 0x7fc0_0001, 0x7f80_0001, 0x0000_0001,
  0x007f_ffff, 0x0080_0000, 0x7f7f_ffff, 0x3eaa_aaab, 0x4049_0fdb, 0x47c3_5000,
];
const F64_EDGES: &[u64] = &[
  0x0000_0000_0000_0000, 0x8000_0000_0000_0000, 0x3ff0_0000_0000_0000, 0x7ff0_0000_0000_0000, 0xfff0_0000_0000_0000,
  0x7ff8_0000_0000_0000, 0x7ff8_0000_0000_0001, 0x7ff0_0000_0000_0001, 0xfff8_0000_0000_0000, 0x0000_0000_0000_0001,
  0x000f_ffff_ffff_ffff, 0x0010_0000_0000_0000, 0x7fef_ffff_ffff_ffff, 0x3ff1_9999_9999_999a, 0x4340_0000_0000_0000,
  0x4330_0000_0000_0001, 0xc3e0_0000_0000_0000, 0x43f0_0000_0000_0000, 0x7e37_e43c_8800_759c,
];

/// Write one random well-formed item to `out`; returns its data-model value.
pub fn gen_item(out: &mut Vec<u8>, r: &mut Rng, cfg: &EncCfg, depth: usize) -> MV {
  let leaf_only = depth >= cfg.max_depth;
  // weights: uint nint bytes text array map tag simple float
  let w = [
    6,
    6,
    5,
    6,
    if leaf_only { 0 } else { 7 },
    if leaf_only { 0 } else { 6 },
    if cfg.tags && !leaf_only { 4 } else { 0 },
    if cfg.simples { 5 } else { 1 },
    if cfg.floats { 5 } else { 0 },
  ];
  match r.weighted(&w) {
    0 => {
      let n = gen_u64(r);
      head(out, 0, n, cfg, r);
      MV::UInt(n)
    }
    1 => {
      let n = gen_u64(r);
      head(out, 1, n, cfg, r);
      MV::NInt(n)
    }
    2 => {
      let b = gen_bytes(r, cfg);
      if cfg.chunk_strings && cfg.indefinite && r.chance(1, 3) {
        out.push(0x5f);
        let mut pos = 0;
        // random chunking, including empty chunks
        while pos < b.len() || r.chance(1, 5) {
          let n = if pos < b.len() { r.below(b.len() - pos + 1) } else { 0 };
          head(out, 2, n as u64, cfg, r);
          out.extend_from_slice(&b[pos..pos + n]);
          pos += n;
          if pos >= b.len() && !r.chance(1, 5) {
            break;
          }
        }
        out.push(0xff);
      } else {
        head(out, 2, b.len() as u64, cfg, r);
        out.extend_from_slice(&b);
      }
      MV::Bytes(b)
    }
    3 => {
      let s = gen_text(r, cfg);
      if cfg.chunk_strings && cfg.indefinite && r.chance(1, 3) {
        out.push(0x7f);
        let chars: Vec<char> = s.chars().collect();
        let mut pos = 0;
        while pos < chars.len() || r.chance(1, 5) {
          let n = if pos < chars.len() { r.below(chars.len() - pos + 1) } else { 0 };
          let chunk: String = chars[pos..pos + n].iter().collect();
          head(out, 3, chunk.len() as u64, cfg, r);
          out.extend_from_slice(chunk.as_bytes());
          pos += n;
          if pos >= chars.len() && !r.chance(1, 5) {
            break;
          }
        }
        out.push(0xff);
      } else {
        head(out, 3, s.len() as u64, cfg, r);
        out.extend_from_slice(s.as_bytes());
      }
      MV::Text(s)
    }
    4 => {
      let n = r.below(cfg.max_children + 1);
      let indef = cfg.indefinite && r.chance(1, 3);
      if indef {
        out.push(0x9f);
      } else {
        head(out, 4, n as u64, cfg, r);
      }
      let mut v = Vec::new();
      for _ in 0..n {
        v.push(gen_item(out, r, cfg, depth + 1));
      }
      if indef {
        out.push(0xff);
      }
      MV::Array(v)
    }
    5 => {
      let n = r.below(cfg.max_children / 2 + 2);
      let indef = cfg.indefinite && r.chance(1, 3);
      if indef {
        out.push(0xbf);
      } else {
        head(out, 5, n as u64, cfg, r);
      }
      let mut v = Vec::new();
      for _ in 0..n {
        let k = gen_item(out, r, cfg, depth + 1);
        let x = gen_item(out, r, cfg, depth + 1);
        v.push((k, x));
      }
      if indef {
        out.push(0xff);
      }
      MV::Map(v)
    }
    6 => {
      let t = if r.coin() { *r.pick(&[0u64, 1, 2, 3, 4, 5, 21, 22, 23, 24, 32, 33, 34, 36, 55799, 65535, 65536]) } else { gen_u64(r) };
      head(out, 6, t, cfg, r);
      let inner = gen_item(out, r, cfg, depth + 1);
      MV::Tag(t, Box::new(inner))
    }
    7 => {
      let s = match r.below(4) {
        0 => r.range(20, 23) as u8,
        1 => r.below(20) as u8,
        _ => r.range(32, 255) as u8,
      };
      if s < 24 {
        out.push(0xe0 | s);
      } else {
        out.push(0xf8);
        out.push(s);
      }
      MV::Simple(s)
    }
    _ => match r.below(3) {
      0 => {
        let h = if r.coin() { *r.pick(F16_EDGES) } else { (r.next_u64() >> 48) as u16 };
        out.push(0xf9);
        out.extend_from_slice(&h.to_be_bytes());
        MV::Float(fbits(half_to_f64(h)))
      }
      1 => {
        let f = if r.coin() { *r.pick(F32_EDGES) } else { (r.next_u64() >> 32) as u32 };
        out.push(0xfa);
        out.extend_from_slice(&f.to_be_bytes());
        MV::Float(fbits(f32::from_bits(f) as f64))
      }
      _ => {
        let f = if r.coin() { *r.pick(F64_EDGES) } else { r.next_u64() };
        out.push(0xfb);
        out.extend_from_slice(&f.to_be_bytes());
        MV::Float(fbits(f64::from_bits(f)))
      }
    },
  }
}
