//! Engine B: Miri as the deterministic scheduler and entropy source for *unmodified* code (the library,
//! every dependency and std). One Miri seed decides the thread schedule (pre-emption at basic-block
//! granularity), addresses and getrandom (hence every hash key): one seed = one exactly repeatable
//! execution. Miri's data-race and deadlock detectors run as additional invariants.
//! The scenarios live in /verif/miri-scn; this module drives `cargo +nightly miri run`, attributes
//! outcomes to seeds and turns them into the simulator's violation vocabulary.

use crate::kernel::Violation;
use serde_json::json;
use std::collections::BTreeMap;
use std::process::Command;

pub struct MiriBatch {
  pub kind: String,
  pub scenario: usize,
  pub seeds: (u64, u64),
  /// seed-unattributed RESULT lines: digest -> count, trace -> count
  pub digests: BTreeMap<String, u64>,
  pub traces: BTreeMap<String, u64>,
  pub results: u64,
  pub failing_seeds: Vec<u64>,
  pub mismatch_lines: Vec<String>,
  pub diagnostics: Vec<String>,
  pub native_digest: Option<String>,
  pub harness_error: Option<String>,
  pub wall_s: f64,
}

pub const PREEMPTION_RATE: &str = "0.1";

fn scn_dir() -> std::path::PathBuf {
  crate::report::verif_dir().join("miri-scn")
}

fn target(kind: &str) -> std::path::PathBuf {
  crate::report::verif_dir().join("target").join(kind)
}

/// Build (natively) and run one scenario natively: the digest every Miri seed must reproduce.
pub fn native_digest(kind: &str, scenario: usize) -> Result<String, String> {
  let out = Command::new("cargo")
    // twin scenarios: the reference digest comes from the same calls made without any concurrency
    .args(["run", "--offline", "--quiet", "--", if kind == "twin" { "twinseq" } else { kind }, &scenario.to_string()])
    .current_dir(scn_dir())
    .env("CARGO_TARGET_DIR", target("miri-native"))
    .env("CARGO_NET_OFFLINE", "true")
    .output()
    .map_err(|e| format!("cargo run (native): {}", e))?;
  let so = String::from_utf8_lossy(&out.stdout);
  for line in so.lines() {
    if let Some(rest) = line.strip_prefix("RESULT ") {
      if let Some(p) = rest.find("digest=") {
        return Ok(rest[p + 7..].split(' ').next().unwrap_or("").to_string());
      }
    }
    if line.starts_with("MISMATCH") {
      return Ok(format!("MISMATCH-NATIVE:{}", line));
    }
  }
  Err(format!("native run of scenario {} {} printed no RESULT line: {}", kind, scenario, String::from_utf8_lossy(&out.stderr).chars().rev().take(400).collect::<String>().chars().rev().collect::<String>()))
}

/// Build the scenario crate natively and for Miri (runs the trivial `list` scenario under Miri).
pub fn build() -> Result<(), String> {
  let n = Command::new("cargo")
    .args(["build", "--offline", "--quiet"])
    .current_dir(scn_dir())
    .env("CARGO_TARGET_DIR", target("miri-native"))
    .env("CARGO_NET_OFFLINE", "true")
    .output()
    .map_err(|e| format!("cargo build (native scenarios): {}", e))?;
  if !n.status.success() {
    return Err(format!("cannot build /verif/miri-scn natively: {}", String::from_utf8_lossy(&n.stderr).chars().rev().take(600).collect::<String>().chars().rev().collect::<String>()));
  }
  let m = Command::new("cargo")
    .args(["+nightly", "miri", "run", "--offline", "--", "list"])
    .current_dir(scn_dir())
    .env("CARGO_TARGET_DIR", target("miri"))
    .env("CARGO_NET_OFFLINE", "true")
    .env("MIRIFLAGS", "")
    .output()
    .map_err(|e| format!("cargo +nightly miri: {}", e))?;
  if !m.status.success() {
    return Err(format!("cannot build / run /verif/miri-scn under Miri: {}", String::from_utf8_lossy(&m.stderr).chars().rev().take(600).collect::<String>().chars().rev().collect::<String>()));
  }
  Ok(())
}

pub fn run_batch(kind: &str, scenario: usize, lo: u64, hi: u64) -> MiriBatch {
  let t0 = std::time::Instant::now();
  let mut b = MiriBatch {
    kind: kind.to_string(),
    scenario,
    seeds: (lo, hi),
    digests: BTreeMap::new(),
    traces: BTreeMap::new(),
    results: 0,
    failing_seeds: vec![],
    mismatch_lines: vec![],
    diagnostics: vec![],
    native_digest: None,
    harness_error: None,
    wall_s: 0.0,
  };
  match native_digest(kind, scenario) {
    Ok(d) => b.native_digest = Some(d),
    Err(e) => {
      b.harness_error = Some(e);
      return b;
    }
  }
  let flags = if hi == lo + 1 { format!("-Zmiri-seed={} -Zmiri-preemption-rate={}", lo, PREEMPTION_RATE) } else { format!("-Zmiri-many-seeds={}..{} -Zmiri-preemption-rate={}", lo, hi, PREEMPTION_RATE) };
  let out = Command::new("cargo")
    .args(["+nightly", "miri", "run", "--offline", "--", kind, &scenario.to_string()])
    .current_dir(scn_dir())
    .env("CARGO_TARGET_DIR", target("miri"))
    .env("CARGO_NET_OFFLINE", "true")
    .env("MIRIFLAGS", &flags)
    .output();
  let out = match out {
    Ok(o) => o,
    Err(e) => {
      b.harness_error = Some(format!("cannot run cargo +nightly miri: {}", e));
      return b;
    }
  };
  let text = format!("{}\n{}", String::from_utf8_lossy(&out.stdout), String::from_utf8_lossy(&out.stderr));
  let mut other_errors: Vec<String> = Vec::new();
  for line in text.lines() {
    let l = line.trim();
    if let Some(rest) = l.strip_prefix("RESULT ") {
      b.results += 1;
      let digest = rest.split("digest=").nth(1).and_then(|s| s.split(' ').next()).unwrap_or("?").to_string();
      let trace = rest.split("trace=").nth(1).unwrap_or("?").trim().to_string();
      *b.digests.entry(digest).or_default() += 1;
      *b.traces.entry(trace).or_default() += 1;
    } else if l.starts_with("MISMATCH") {
      b.mismatch_lines.push(l.to_string());
    } else if let Some(rest) = l.strip_prefix("FAILING SEED: ") {
      if let Ok(n) = rest.trim().parse::<u64>() {
        b.failing_seeds.push(n);
      }
    } else if l.starts_with("error: Undefined Behavior: Data race") || l.contains("Data race detected") {
      b.diagnostics.push(format!("data-race: {}", l));
    } else if l.starts_with("error: deadlock") || l.contains("the evaluated program deadlocked") {
      b.diagnostics.push(format!("deadlock: {}", l));
    } else if l.starts_with("error: Undefined Behavior") {
      // some other Miri diagnostic (aliasing model, unsupported operation in a dependency): not a verdict on
      // this property - reported as a harness error (exit 2), never as a VIOLATION
      other_errors.push(l.to_string());
    } else if l.starts_with("error: unsupported operation") || l.starts_with("error: could not compile") || l.starts_with("error[E") {
      other_errors.push(l.to_string());
    }
  }
  let expected = hi - lo;
  let accounted = b.results + b.mismatch_lines.len() as u64;
  if !other_errors.is_empty() {
    b.harness_error = Some(format!("Miri reported something that is not a verdict on the property: {}", other_errors.join(" | ")));
  } else if accounted < expected && b.failing_seeds.is_empty() && b.diagnostics.is_empty() {
    b.harness_error = Some(format!(
      "only {} of {} seeds produced an outcome (exit status {:?}); tail: {}",
      accounted,
      expected,
      out.status.code(),
      text.chars().rev().take(600).collect::<String>().chars().rev().collect::<String>()
    ));
  }
  b.wall_s = t0.elapsed().as_secs_f64();
  b
}

/// Turn a batch into violations. A digest disagreement without a failing seed is attributed by re-running
/// seeds one at a time.
pub fn judge(b: &MiriBatch, property: &str) -> Vec<(u64, Violation)> {
  let mut v = Vec::new();
  let world = |seed: u64, b: &MiriBatch| json!({"engine": "miri", "kind": b.kind, "scenario": b.scenario, "miri_seed": seed, "preemption_rate": PREEMPTION_RATE, "native_digest": b.native_digest});
  let native = b.native_digest.clone().unwrap_or_default();
  if native.starts_with("MISMATCH-NATIVE") {
    v.push((0, Violation { class: "miri-mismatch".into(), signature: format!("{}:{}:native", b.kind, b.scenario), world: world(0, b), detail: native.clone() }));
    return v;
  }
  if !b.mismatch_lines.is_empty() || !b.diagnostics.is_empty() {
    let seed = b.failing_seeds.first().cloned().unwrap_or(b.seeds.0);
    let class = if b.diagnostics.iter().any(|d| d.starts_with("data-race")) {
      "data-race"
    } else if b.diagnostics.iter().any(|d| d.starts_with("deadlock")) {
      "deadlock"
    } else if !b.mismatch_lines.is_empty() {
      "miri-mismatch"
    } else {
      "undefined-behaviour"
    };
    let detail = format!("{} {}", b.mismatch_lines.join(" | "), b.diagnostics.join(" | "));
    v.push((seed, Violation { class: class.into(), signature: format!("{}:{}", b.kind, b.scenario), world: world(seed, b), detail: format!("property {}: under Miri seed(s) {:?}: {}", property, b.failing_seeds, detail) }));
    return v;
  }
  let off: Vec<&String> = b.digests.keys().filter(|d| **d != native).collect();
  if !off.is_empty() {
    // attribute: find a seed whose digest differs from the native one
    let mut seed_found = None;
    for s in b.seeds.0..b.seeds.1 {
      let one = run_batch(&b.kind, b.scenario, s, s + 1);
      if one.digests.keys().any(|d| *d != native) {
        seed_found = Some(s);
        break;
      }
    }
    let seed = seed_found.unwrap_or(b.seeds.0);
    v.push((
      seed,
      Violation {
        class: "entropy-dependence".into(),
        signature: format!("{}:{}", b.kind, b.scenario),
        world: world(seed, b),
        detail: format!("property {}: the digest of all responses / outputs is {} in a native process but {:?} under Miri seeds {}..{} (seed {} reproduces): the result depends on hash keys, addresses or the schedule", property, native, b.digests, b.seeds.0, b.seeds.1, seed),
      },
    ));
  }
  v
}

/// Replay of a Miri finding: the same scenario under the recorded seed.
pub fn replay(world: &serde_json::Value, class: &str) -> (bool, String) {
  let kind = world["kind"].as_str().unwrap_or("c14").to_string();
  let scenario = world["scenario"].as_u64().unwrap_or(0) as usize;
  let seed = world["miri_seed"].as_u64().unwrap_or(0);
  let b = run_batch(&kind, scenario, seed, seed + 1);
  if let Some(e) = &b.harness_error {
    return (false, format!("harness: {}", e));
  }
  let vs = judge(&b, "?");
  let hit = vs.iter().any(|(_, v)| v.class == class);
  (hit, vs.iter().map(|(_, v)| format!("{}: {}", v.class, v.detail)).collect::<Vec<_>>().join(" | "))
}
