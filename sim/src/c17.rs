//! C17 — determinism clause only: generation is a deterministic function of the schema text and the
//! options; the same input yields byte-identical code in every process, on every thread, whatever was
//! generated before; type names are unique and field names are unique per type.
//!
//! The nondeterminism a process is born with (hash keys of the five HashMap/HashSet in codegen.rs,
//! which std draws per thread and bumps per container; thread identity; what ran earlier) is what the
//! simulator owns here: one run generates the same (schema, options) on the subject thread, on fresh
//! client threads, after generating *other* schemas, and in a fresh process (zygote), and demands one
//! output. Engine B (Miri) repeats it under seeded entropy so that a failure has an exactly replayable seed.
//! The compile / round-trip clauses of C17 are pure functions of the schema and are not addressed.

#[allow(dead_code, unused_imports, clippy::all)]
#[path = "/repo/cddl-derive/src/codegen.rs"]
mod codegen;

use crate::c05::corpus;
use crate::gen::*;
use crate::kernel::*;
use crate::rng::{fnv, fnv_add, Rng};
use crate::zygote;
use serde_json::{json, Value};
use std::collections::BTreeMap;

pub struct C17;
pub static C17_CHECK: C17 = C17;

#[derive(Clone, Debug, PartialEq)]
pub struct Opts {
  pub any_type: Option<String>,
  pub non_exhaustive: bool,
  pub other_variant: bool,
  pub substitutions: Vec<(String, String)>,
}

impl Opts {
  fn to_codegen(&self) -> codegen::CodegenOptions {
    codegen::CodegenOptions {
      any_type: self.any_type.clone(),
      non_exhaustive: self.non_exhaustive,
      other_variant: self.other_variant,
      substitutions: self.substitutions.iter().cloned().collect::<BTreeMap<_, _>>(),
    }
  }
  fn to_json(&self) -> Value {
    json!({"any_type": self.any_type, "non_exhaustive": self.non_exhaustive, "other_variant": self.other_variant, "substitutions": self.substitutions})
  }
  fn from_json(v: &Value) -> Opts {
    Opts {
      any_type: v["any_type"].as_str().map(|s| s.to_string()),
      non_exhaustive: v["non_exhaustive"].as_bool().unwrap_or(false),
      other_variant: v["other_variant"].as_bool().unwrap_or(false),
      substitutions: v["substitutions"]
        .as_array()
        .map(|a| a.iter().map(|e| (e[0].as_str().unwrap_or("").to_string(), e[1].as_str().unwrap_or("").to_string())).collect())
        .unwrap_or_default(),
    }
  }
}

/// One generation job: all types, or one named rule.
#[derive(Clone, Debug, PartialEq)]
pub struct Job {
  pub schema: String,
  pub opts: Opts,
  /// None: generate_all_types; Some(rule): generate_single_type
  pub single: Option<String>,
}

impl Job {
  pub fn to_json(&self) -> Value {
    json!({"schema": self.schema, "opts": self.opts.to_json(), "single": self.single})
  }
  pub fn from_json(v: &Value) -> Job {
    Job { schema: v["schema"].as_str().unwrap_or("").to_string(), opts: Opts::from_json(&v["opts"]), single: v["single"].as_str().map(|s| s.to_string()) }
  }
}

/// The observable of one generation: Ok(text) / Err(text) / parse error / panic.
pub fn generate(j: &Job) -> String {
  let r = guarded(|| match cddl::cddl_from_str(&j.schema, false) {
    Ok(ast) => {
      let o = j.opts.to_codegen();
      let r = match &j.single {
        None => codegen::generate_all_types(&ast, &j.schema, &o),
        Some(rule) => codegen::generate_single_type(&ast, rule, None, &j.schema, &o),
      };
      match r {
        Ok(s) => format!("OK\n{}", s),
        Err(e) => format!("ERR\n{}", e),
      }
    }
    Err(e) => format!("PARSE-ERR\n{}", e),
  });
  match r {
    Ok(s) => s,
    Err(p) => format!("PANIC\n{} at {}", p.msg, panic_site(&p)),
  }
}

fn zygote_eval(req: &Value) -> Value {
  let jobs: Vec<Job> = req["jobs"].as_array().map(|a| a.iter().map(Job::from_json).collect()).unwrap_or_default();
  json!({"outs": jobs.iter().map(generate).collect::<Vec<_>>()})
}

#[derive(Clone, Debug)]
pub struct World {
  /// jobs[0] is the one under test; the others are "what was generated before"
  pub jobs: Vec<Job>,
  pub origin: String,
}

impl World {
  pub fn to_json(&self) -> Value {
    json!({"jobs": self.jobs.iter().map(|j| j.to_json()).collect::<Vec<_>>(), "origin": self.origin})
  }
  pub fn from_json(v: &Value) -> World {
    World { jobs: v["jobs"].as_array().map(|a| a.iter().map(Job::from_json).collect()).unwrap_or_default(), origin: v["origin"].as_str().unwrap_or("").to_string() }
  }
}

const TAGGED: &[&str] = &["tdate", "time", "uri", "b64url", "b64legacy", "regexp"];
const PLAIN: &[&str] = &["int", "uint", "tstr", "bstr", "bool", "float", "any", "nil", "bytes", "text", "number"];
const FIELD_NAMES: &[&str] = &["id", "type", "match", "self", "name", "first-name", "first_name", "firstName", "x-y", "x_y", "value", "ref", "fn", "a", "b", "created", "link", "epoch", "data", "async", "Type", "box", "1st", "kebab-case-name", "snake_case_name"];

fn special_schema(r: &mut Rng) -> (String, &'static str) {
  match r.below(6) {
    0 => {
      // several distinct tagged prelude types as bare field types, in several structs
      let mut s = String::new();
      let n = r.range(1, 3);
      for k in 0..n {
        let mut tags: Vec<&str> = TAGGED.to_vec();
        r.shuffle(&mut tags);
        let m = r.range(2, 6);
        let fields: Vec<String> = tags.iter().take(m).enumerate().map(|(i, t)| format!("  {}f{}: {},", if r.chance(1, 4) { "? " } else { "" }, i, t)).collect();
        s.push_str(&format!("rec{} = {{\n{}\n}}\n", k, fields.join("\n")));
      }
      (s, "tagged-prelude-fields")
    }
    1 => {
      // field names that collide after snake-casing / keyword escaping
      let mut names: Vec<&str> = FIELD_NAMES.to_vec();
      r.shuffle(&mut names);
      let m = r.range(3, 10);
      let fields: Vec<String> = names.iter().take(m).map(|n| format!("  {}{}: {},", if r.chance(1, 4) { "? " } else { "" }, if n.chars().next().unwrap().is_ascii_digit() { format!("\"{}\"", n) } else { n.to_string() }, r.pick(PLAIN))).collect();
      (format!("thing = {{\n{}\n}}\n", fields.join("\n")), "colliding-field-names")
    }
    2 => {
      // socket/plug style alternates and type choices sharing a name after pascal-casing
      let mut s = String::from("root = { kind: kinds, extra: $ext, ? other: $$grp-ext }\n");
      let mut alts = vec!["kinds /= \"a\"", "kinds /= \"b\"", "kinds /= \"a-b\"", "kinds /= \"a_b\"", "$ext /= int", "$ext /= { x: int }", "$ext /= tstr", "kinds = \"z\""];
      r.shuffle(&mut alts);
      // the first definition of kinds must come before its alternates
      s.push_str("kinds = \"first\"\n");
      for a in alts.iter().take(r.range(2, 7)) {
        if !a.starts_with("kinds = ") {
          s.push_str(a);
          s.push('\n');
        }
      }
      (s, "alternates")
    }
    3 => {
      // mutually recursive structs (boxing via SCCs), several components
      let n = r.range(2, 5);
      let mut s = String::new();
      for i in 0..n {
        let next = (i + 1) % n;
        let other = r.below(n);
        s.push_str(&format!("node{} = {{ ? next: node{}, ? other: node{}, items: [* node{}], v: {} }}\n", i, next, other, r.below(n), r.pick(PLAIN)));
      }
      s.push_str("leaf-a = { v: int }\nleaf-b = { a: leaf-a, ? b: leaf-b }\n");
      (s, "recursive-sccs")
    }
    4 => {
      // string-literal choices, enums, tables, arrays, nested references, names differing only in case
      let mut s = String::from("status = \"active\" / \"in-active\" / \"in_active\" / \"Active\"\n");
      s.push_str("person = { name: tstr, ? age: uint, status: status, tags: [* tstr], attrs: { * tstr => any }, ? address: address / nil }\n");
      s.push_str("address = { street: tstr, ? zip: tstr / uint }\nPerson = { n: int }\nperson-2 = person\n");
      if r.coin() {
        s.push_str("my-type = { a: int }\nmy_type = { b: int }\nMyType = { c: int }\n");
      }
      (s, "mapping-table")
    }
    _ => {
      // many rules
      let n = r.range(10, 60);
      let mut s = String::new();
      for i in 0..n {
        match r.below(4) {
          0 => s.push_str(&format!("r{} = {{ a: {}, ? b: r{} }}\n", i, r.pick(PLAIN), r.below(n))),
          1 => s.push_str(&format!("r{} = {} / {}\n", i, r.pick(PLAIN), r.pick(TAGGED))),
          2 => s.push_str(&format!("r{} = [* r{}]\n", i, r.below(n))),
          _ => s.push_str(&format!("r{} = {{ t: {}, u: {}, * tstr => r{} }}\n", i, r.pick(TAGGED), r.pick(TAGGED), r.below(n))),
        }
      }
      (s, "many-rules")
    }
  }
}

fn rule_names(schema: &str) -> Vec<String> {
  let mut v = Vec::new();
  for line in schema.lines() {
    if line.starts_with(' ') || line.starts_with(';') || line.starts_with('}') {
      continue;
    }
    if let Some(p) = line.find('=') {
      let n = line[..p].trim().trim_end_matches('/').trim();
      if !n.is_empty() && !n.contains(' ') && !n.contains('<') && !n.starts_with('$') && !v.contains(&n.to_string()) {
        v.push(n.to_string());
      }
    }
  }
  v
}

fn rand_opts(r: &mut Rng, schema: &str) -> Opts {
  if r.chance(1, 2) {
    return Opts { any_type: None, non_exhaustive: false, other_variant: false, substitutions: vec![] };
  }
  let names = rule_names(schema);
  let mut subs = Vec::new();
  if !names.is_empty() {
    for _ in 0..r.below(4) {
      let n = r.pick(&names).clone();
      if r.coin() {
        subs.push((n, (*r.pick(&["u64", "String", "my_crate::Label", "Vec<u8>"])).to_string()));
      } else {
        subs.push((format!("{}.{}", n, r.pick(FIELD_NAMES)), "Vec<u8>".to_string()));
      }
    }
  }
  Opts {
    any_type: if r.coin() { Some("ciborium::Value".into()) } else { None },
    non_exhaustive: r.coin(),
    other_variant: r.coin(),
    substitutions: subs,
  }
}

fn derive_fixtures() -> Vec<(String, String)> {
  let root = crate::report::verif_dir().join("corpus").join("derive");
  let mut v = Vec::new();
  if let Ok(rd) = std::fs::read_dir(root) {
    let mut files: Vec<std::path::PathBuf> = rd.flatten().map(|e| e.path()).collect();
    files.sort();
    for f in files {
      if let Ok(s) = std::fs::read_to_string(&f) {
        v.push((f.file_name().unwrap().to_string_lossy().to_string(), s));
      }
    }
  }
  v
}

pub fn build_world(seed: u64, idx: u64, out: &mut RunOut) -> World {
  let mut rw = Rng::stream(seed, "c17", idx, "workload");
  let mut rk = Rng::stream(seed, "c17", idx, "knobs");
  let mut jobs = Vec::new();
  let mut origins = Vec::new();
  let n = rk.range(1, 3);
  for _ in 0..n {
    let (schema, origin): (String, String) = match rk.weighted(&[3, 6, 3, 2]) {
      0 => {
        let fx = derive_fixtures();
        if fx.is_empty() {
          out.probe("DERIVE_FIXTURES_MISSING");
          ("a = int\n".to_string(), "fallback".to_string())
        } else {
          let (n, s) = rw.pick(&fx).clone();
          (s, format!("fixture:{}", n))
        }
      }
      1 => {
        let (s, o) = special_schema(&mut rw);
        (s, o.to_string())
      }
      2 => {
        // a schema inferred from a random document: everything the parser accepts is in scope for determinism
        let dcfg = DocCfg { cbor_only: false, ..DocCfg::swarm(&mut rk) };
        let doc = gen_doc(&mut rw, &dcfg, 0);
        let mut scfg = SchemaCfg::swarm(&mut rk);
        scfg.hazards = false;
        let mut g = SchemaGen::new(&mut rw, scfg);
        let root = g.ty(&doc, 0);
        (g.finish(root), "inferred".to_string())
      }
      _ => {
        let c = corpus();
        if c.schemas.is_empty() {
          ("a = int\n".to_string(), "fallback".to_string())
        } else {
          let (n, s) = rw.pick(&c.schemas).clone();
          (s, format!("corpus:{}", n))
        }
      }
    };
    let opts = rand_opts(&mut rw, &schema);
    let single = if rw.chance(1, 5) {
      let names = rule_names(&schema);
      if names.is_empty() {
        None
      } else {
        // generate_single_type looks the rule up by its generated (PascalCase) name
        Some(codegen::to_pascal_case(rw.pick::<String>(&names).as_str()))
      }
    } else {
      None
    };
    origins.push(origin);
    jobs.push(Job { schema, opts, single });
  }
  // the same schema text under other options, before or after: what one generation leaves behind (a memo
  // keyed by the text, a counter) must not reach the next
  if rk.chance(1, 3) {
    let mut twin = jobs[0].clone();
    twin.opts = rand_opts(&mut rw, &twin.schema);
    if twin.opts == jobs[0].opts {
      twin.opts.any_type = Some("ciborium::Value".into());
      twin.opts.non_exhaustive = !twin.opts.non_exhaustive;
    }
    twin.single = None;
    if rk.coin() {
      jobs.insert(0, twin);
      origins.insert(0, "same-text-other-options".to_string());
    } else {
      jobs.push(twin);
    }
  }
  World { jobs, origin: origins.join("+") }
}

// ------------------------------------------------------------------------------------------------
// invariants on the generated text

/// Unique type names, unique field names per struct, unique variant names per enum, on the rendered text
/// (the renderer uses fixed templates: `pub struct X {`, `pub enum X {`, `pub type X =`, `pub f: T,`).
pub fn uniqueness_violation(text: &str) -> Option<String> {
  let mut types: Vec<String> = Vec::new();
  let mut cur: Option<(String, bool, Vec<String>)> = None; // (type, is_enum, members)
  let mut depth_mod = 0usize;
  for line in text.lines() {
    let t = line.trim();
    if t.starts_with("pub mod ") || t.starts_with("mod ") {
      depth_mod += 1;
      continue;
    }
    if depth_mod > 0 {
      // helper modules: skip until the module closes at column 0
      if line.starts_with('}') {
        depth_mod -= 1;
      }
      continue;
    }
    if cur.is_none() {
      for (kw, is_enum) in [("pub struct ", false), ("pub enum ", true)] {
        if let Some(rest) = t.strip_prefix(kw) {
          let name: String = rest.chars().take_while(|c| c.is_alphanumeric() || *c == '_').collect();
          if types.contains(&name) {
            return Some(format!("type name {} is defined twice", name));
          }
          types.push(name.clone());
          if rest.trim_end().ends_with('{') {
            cur = Some((name, is_enum, Vec::new()));
          }
        }
      }
      if let Some(rest) = t.strip_prefix("pub type ") {
        let name: String = rest.chars().take_while(|c| c.is_alphanumeric() || *c == '_').collect();
        if types.contains(&name) {
          return Some(format!("type name {} is defined twice", name));
        }
        types.push(name);
      }
      continue;
    }
    if line.starts_with('}') {
      cur = None;
      continue;
    }
    if let Some((ty, is_enum, members)) = cur.as_mut() {
      if t.starts_with('#') || t.starts_with("//") || t.is_empty() {
        continue;
      }
      let member: Option<String> = if *is_enum {
        // the property speaks of type names and field names; enum variants are not judged
        None
      } else {
        t.strip_prefix("pub ").and_then(|r| r.split(':').next()).map(|s| s.trim().to_string())
      };
      if let Some(mn) = member {
        if members.contains(&mn) {
          return Some(format!("{} {} has two {} named {}", if *is_enum { "enum" } else { "struct" }, ty, if *is_enum { "variants" } else { "fields" }, mn));
        }
        members.push(mn);
      }
    }
  }
  None
}

/// Why is the generated type name `pascal` defined twice? "group-alternates": the schema extends one group
/// rule with //= (each alternate is rendered as a struct of the same name); "distinct-rules": two different
/// rule names map to the same Rust name; "other".
pub fn collision_cause(schema: &str, pascal: &str) -> &'static str {
  let mut defs: Vec<(String, bool)> = Vec::new(); // (rule name, defined with //=)
  for line in schema.lines() {
    if line.starts_with(' ') || line.starts_with('\t') || line.starts_with(';') {
      continue;
    }
    if let Some(p) = line.find('=') {
      let lhs = line[..p].trim_end();
      let group_alt = lhs.ends_with("//");
      let name = lhs.trim_end_matches('/').trim().split('<').next().unwrap_or("").trim().to_string();
      if !name.is_empty() && !name.contains(' ') && codegen::to_pascal_case(&name) == pascal {
        defs.push((name, group_alt));
      }
    }
  }
  let mut names: Vec<&String> = defs.iter().map(|d| &d.0).collect();
  names.sort();
  names.dedup();
  if names.len() > 1 {
    "distinct-rules"
  } else if defs.len() > 1 && defs.iter().any(|d| d.1) {
    "group-alternates"
  } else {
    "other"
  }
}

fn first_diff(a: &str, b: &str) -> String {
  for (i, (la, lb)) in a.lines().zip(b.lines()).enumerate() {
    if la != lb {
      return format!("first differing line {}: {:?} vs {:?}", i + 1, la.chars().take(120).collect::<String>(), lb.chars().take(120).collect::<String>());
    }
  }
  format!("lengths {} vs {} lines", a.lines().count(), b.lines().count())
}

pub struct Out {
  pub violations: Vec<Violation>,
  pub generations: u64,
  pub kind: String,
  pub fp: u64,
  pub ref_missing: bool,
}

pub fn exec(w: &World) -> Out {
  let mut o = Out { violations: vec![], generations: 0, kind: String::new(), fp: fnv(b"c17"), ref_missing: false };
  if w.jobs.is_empty() {
    return o;
  }
  let n = w.jobs.len();
  // outs[k] = (circumstance, output) of job k under every circumstance
  let mut outs: Vec<Vec<(String, String)>> = vec![Vec::new(); n];
  // a fresh process generates the jobs in REVERSE order (before this process has generated anything in this run)
  let rev: Vec<usize> = (0..n).rev().collect();
  match zygote::ask(&json!({"jobs": rev.iter().map(|k| w.jobs[*k].to_json()).collect::<Vec<_>>()})) {
    Some(v) => {
      for (i, k) in rev.iter().enumerate() {
        if let Some(s) = v["outs"][i].as_str() {
          outs[*k].push((if i == 0 { "in a fresh process, first".to_string() } else { format!("in a fresh process, after {} other generation(s)", i) }, s.to_string()));
        }
      }
    }
    None => o.ref_missing = true,
  }
  // this process, coordinating thread, forward order, the first job twice
  for k in 0..n {
    outs[k].push((format!("on the coordinating thread, after {} other generation(s) of this run", k), generate(&w.jobs[k])));
    if k == 0 {
      outs[0].push(("again on the same thread".into(), generate(&w.jobs[0])));
    }
  }
  outs[0].push(("after generating the other schemas of the run".into(), generate(&w.jobs[0])));
  // fresh threads: fresh hash keys, another thread identity, reverse order on one of them
  let jobs = &w.jobs;
  let threaded: Vec<Vec<(usize, String)>> = std::thread::scope(|sc| {
    let hs: Vec<_> = (0..2usize)
      .map(|t| {
        std::thread::Builder::new()
          .stack_size(STACK_BYTES)
          .name(format!("gen-{}", t))
          .spawn_scoped(sc, move || {
            crate::alloc::set_subject(true);
            // a different number of hash containers created before the generation on each thread
            let mut warm = Vec::new();
            for i in 0..(t * 3 + 1) {
              let mut h = std::collections::HashMap::new();
              h.insert(i, i);
              warm.push(h);
            }
            let order: Vec<usize> = if t == 0 { (0..jobs.len()).collect() } else { (0..jobs.len()).rev().collect() };
            let mut v = Vec::new();
            for k in order {
              v.push((k, generate(&jobs[k])));
            }
            v.push((0, generate(&jobs[0])));
            drop(warm);
            v
          })
          .expect("spawn gen thread")
      })
      .collect();
    hs.into_iter().map(|h| h.join().unwrap_or_default()).collect()
  });
  for (t, v) in threaded.into_iter().enumerate() {
    for (i, (k, s)) in v.into_iter().enumerate() {
      outs[k].push((format!("on fresh thread {} (its generation number {})", t, i), s));
    }
  }
  for k in 0..n {
    o.generations += outs[k].len() as u64;
  }
  let base0 = outs[0][0].1.clone();
  o.kind = base0.lines().next().unwrap_or("").to_string();
  o.fp = fnv_add(o.fp, base0.as_bytes());
  'jobs: for k in 0..n {
    let base = outs[k][0].1.clone();
    for (circ, s) in outs[k].iter().skip(1) {
      if *s != base {
        // the job under test goes first in the replay world
        let mut mw = w.clone();
        mw.jobs.swap(0, k);
        o.violations.push(Violation {
          class: "nondeterministic-generation".into(),
          signature: format!("{}:{}", if w.jobs[k].single.is_some() { "single" } else { "all" }, base.lines().next().unwrap_or("")),
          world: mw.to_json(),
          detail: format!("the output generated {} differs from the output generated {}: {}", circ, outs[k][0].0, first_diff(&base, s)),
        });
        break 'jobs;
      }
    }
  }
  if base0.starts_with("OK\n") {
    if let Some(why) = uniqueness_violation(&base0[3..]) {
      let mut mw = w.clone();
      mw.jobs.truncate(1);
      let j0 = &w.jobs[0];
      let sig = if why.starts_with("type name") {
        let name = why.split(' ').nth(2).unwrap_or("");
        format!("type-name:{}", collision_cause(&j0.schema, name))
      } else {
        "field-name".to_string()
      };
      o.violations.push(Violation { class: "name-collision".into(), signature: sig, world: mw.to_json(), detail: why });
    }
  }
  o
}

impl Check for C17 {
  fn name(&self) -> &'static str {
    "c17"
  }
  fn default_budget(&self) -> (usize, usize) {
    (usize::MAX, usize::MAX)
  }
  fn zygote_eval(&self) -> Option<fn(&Value) -> Value> {
    Some(zygote_eval)
  }

  fn run(&self, seed: u64, idx: u64, _tier: Tier) -> RunOut {
    let mut out = RunOut::default();
    let w = build_world(seed, idx, &mut out);
    if trace_on() {
      trace(&format!("world {}", w.to_json()));
    }
    let o = exec(&w);
    out.ops = o.generations;
    out.fp = fnv_add(o.fp, w.jobs[0].to_json().to_string().as_bytes());
    match o.kind.as_str() {
      "OK" => out.probe("generated_ok"),
      "ERR" => out.probe("generation_err"),
      "PARSE-ERR" => out.probe("schema_rejected"),
      _ => out.probe("generation_panicked"),
    }
    for part in w.origin.split('+').take(1) {
      match part.split(':').next().unwrap_or("") {
        "fixture" => out.probe("src_derive_fixture"),
        "tagged-prelude-fields" => out.probe("src_tagged_prelude_fields"),
        "colliding-field-names" => out.probe("src_colliding_field_names"),
        "alternates" => out.probe("src_alternates"),
        "recursive-sccs" => out.probe("src_recursive_sccs"),
        "mapping-table" => out.probe("src_mapping_table"),
        "many-rules" => out.probe("src_many_rules"),
        "inferred" => out.probe("src_inferred"),
        "corpus" => out.probe("src_corpus"),
        _ => {}
      }
    }
    out.fault_n("fresh_thread_hash_keys", 2);
    out.fault("generated_after_other_schemas");
    if o.ref_missing {
      out.probe("fresh_process_unavailable");
    } else {
      out.fault("fresh_process");
    }
    out.nontrivial = o.kind == "OK";
    out.violations = o.violations;
    out.sample = Some(json!({"origin": w.origin, "single": w.jobs[0].single, "opts": w.jobs[0].opts.to_json(), "schema": w.jobs[0].schema.chars().take(300).collect::<String>(), "outcome": o.kind}));
    out
  }

  fn exec_world(&self, world: &Value) -> Vec<Violation> {
    exec(&World::from_json(world)).violations
  }
}

/// Minimise: drop the other jobs, then schema lines, keeping class + signature.
pub fn minimise(v: &Violation, secs: u64) -> Violation {
  use crate::minimize::{ddmin, Budget};
  let w0 = World::from_json(&v.world);
  let class = v.class.clone();
  let sig = v.signature.clone();
  let holds = |w: &World| -> Option<String> {
    // hash-order failures are probabilistic per execution: try a few times
    for _ in 0..3 {
      let r = exec_isolated("c17", &w.to_json(), 30);
      if let Some(x) = r.violations.iter().find(|x| x.class == class && x.signature == sig) {
        return Some(x.detail.clone());
      }
    }
    None
  };
  if holds(&w0).is_none() {
    return v.clone();
  }
  let mut w = w0.clone();
  if w.jobs.len() > 1 {
    let mut c = w.clone();
    c.jobs.truncate(1);
    if holds(&c).is_some() {
      w = c;
    }
  }
  let lines: Vec<String> = w.jobs[0].schema.lines().map(|l| l.to_string()).collect();
  if lines.len() > 1 {
    let mut budget = Budget::new(40, secs);
    let base = w.clone();
    let mut pred = |ls: &[String]| {
      let mut c = base.clone();
      c.jobs[0].schema = ls.join("\n") + "\n";
      holds(&c).is_some()
    };
    let small = ddmin(lines, &mut budget, &mut pred);
    w.jobs[0].schema = small.join("\n") + "\n";
  }
  match holds(&w) {
    Some(detail) => Violation { class, signature: sig, world: w.to_json(), detail },
    None => v.clone(),
  }
}

/// Named predicates referenced from known_findings.json, evaluated on the minimised world.
pub fn predicate(name: &str, v: &Violation) -> bool {
  let w = World::from_json(&v.world);
  match name {
    "group_alternates_in_schema" => w.jobs.first().map(|j| j.schema.lines().filter(|l| l.contains("//=")).count() >= 1).unwrap_or(false),
    _ => false,
  }
}
