//! Fresh-process oracle ("zygote"). A child that executes runs forks, before it has executed any library
//! code and before it has started any thread, a pristine copy of itself. For every request the pristine
//! copy forks a grandchild that evaluates the request alone and dies: "the same call made alone in a
//! fresh process", which is the sequential reference of a stateless API. Whatever earlier runs or calls
//! left behind in the requesting process (statics, lazies, thread-locals, caches) cannot reach it.

use serde_json::Value;
use std::sync::atomic::{AtomicI32, Ordering};

static REQ_FD: AtomicI32 = AtomicI32::new(-1);
static RESP_FD: AtomicI32 = AtomicI32::new(-1);

fn write_all(fd: i32, b: &[u8]) -> bool {
  let mut off = 0;
  while off < b.len() {
    let n = unsafe { libc::write(fd, b[off..].as_ptr() as *const libc::c_void, b.len() - off) };
    if n <= 0 {
      return false;
    }
    off += n as usize;
  }
  true
}

fn read_exact(fd: i32, buf: &mut [u8]) -> bool {
  let mut off = 0;
  while off < buf.len() {
    let n = unsafe { libc::read(fd, buf[off..].as_mut_ptr() as *mut libc::c_void, buf.len() - off) };
    if n <= 0 {
      return false;
    }
    off += n as usize;
  }
  true
}

fn send(fd: i32, v: &Value) -> bool {
  let s = v.to_string();
  let len = (s.len() as u64).to_le_bytes();
  write_all(fd, &len) && write_all(fd, s.as_bytes())
}

fn recv(fd: i32) -> Option<Value> {
  let mut len = [0u8; 8];
  if !read_exact(fd, &mut len) {
    return None;
  }
  let n = u64::from_le_bytes(len) as usize;
  if n > (256 << 20) {
    return None;
  }
  let mut buf = vec![0u8; n];
  if !read_exact(fd, &mut buf) {
    return None;
  }
  serde_json::from_slice(&buf).ok()
}

/// Must be called on the main thread before any other thread exists and before any library code ran.
/// `eval` is what a grandchild runs for one request.
pub fn start(eval: fn(&Value) -> Value) {
  let mut req = [0i32; 2];
  let mut resp = [0i32; 2];
  unsafe {
    if libc::pipe(req.as_mut_ptr()) != 0 || libc::pipe(resp.as_mut_ptr()) != 0 {
      return;
    }
  }
  let pid = unsafe { libc::fork() };
  if pid < 0 {
    return;
  }
  if pid == 0 {
    // the pristine copy: serve requests until the requester goes away
    unsafe {
      libc::close(req[1]);
      libc::close(resp[0]);
      // the library prints parser diagnostics to stderr; keep them out of the run's error file
      let devnull = libc::open(b"/dev/null\0".as_ptr() as *const libc::c_char, libc::O_WRONLY);
      if devnull >= 0 {
        libc::dup2(devnull, 2);
      }
    }
    loop {
      let r = match recv(req[0]) {
        Some(r) => r,
        None => unsafe { libc::_exit(0) },
      };
      let g = unsafe { libc::fork() };
      if g == 0 {
        // a request that does not return must not outlive the run that asked
        unsafe { libc::alarm(15) };
        // the reference process differs from the requester in everything a process is born with that code
        // could (wrongly) let through into its result: pid (by construction), working directory,
        // environment, heap layout
        perturb_identity();
        let out = eval(&r);
        send(resp[1], &out);
        unsafe { libc::_exit(0) };
      }
      let mut st: i32 = 0;
      if g > 0 {
        unsafe { libc::waitpid(g, &mut st, 0) };
      }
      let clean = g > 0 && libc::WIFEXITED(st) && libc::WEXITSTATUS(st) == 0;
      if !clean {
        // the grandchild died (stack overflow, abort): say so instead of a response
        let how = if g > 0 && libc::WIFSIGNALED(st) { format!("signal:{}", libc::WTERMSIG(st)) } else { "failed".to_string() };
        send(resp[1], &serde_json::json!({"zygote_died": how}));
      }
    }
  }
  unsafe {
    libc::close(req[0]);
    libc::close(resp[1]);
  }
  REQ_FD.store(req[1], Ordering::SeqCst);
  RESP_FD.store(resp[0], Ordering::SeqCst);
}

pub fn available() -> bool {
  REQ_FD.load(Ordering::SeqCst) >= 0
}

/// Evaluate `request` alone in a fresh process. None: no zygote, or the evaluation killed its process.
pub fn ask(request: &Value) -> Option<Value> {
  let rq = REQ_FD.load(Ordering::SeqCst);
  let rs = RESP_FD.load(Ordering::SeqCst);
  if rq < 0 || rs < 0 {
    return None;
  }
  if !send(rq, request) {
    return None;
  }
  let v = recv(rs)?;
  if v.get("zygote_died").is_some() {
    return None;
  }
  Some(v)
}

/// Give the calling (reference) process another working directory, other values for the environment
/// variables a build or a user session defines, and a shifted heap.
fn perturb_identity() {
  let _ = std::env::set_current_dir("/");
  for (k, v) in [
    ("USER", "someone-else"),
    ("HOME", "/nonexistent-home"),
    ("PWD", "/"),
    ("CARGO_MANIFEST_DIR", "/another/manifest/dir"),
    ("CARGO_PKG_NAME", "another-package"),
    ("OUT_DIR", "/another/out/dir"),
    ("HOSTNAME", "another-host"),
    ("TZ", "Pacific/Kiritimati"),
    ("LANG", "tr_TR.UTF-8"),
    ("LC_ALL", "tr_TR.UTF-8"),
    ("SOURCE_DATE_EPOCH", "86400"),
  ] {
    std::env::set_var(k, v);
  }
  // shift the heap: blocks of odd sizes that stay allocated
  let mut keep: Vec<Vec<u8>> = Vec::new();
  for i in 0..17usize {
    keep.push(vec![0u8; 1000 + 137 * i]);
  }
  std::mem::forget(keep);
}
