//! C05 — no entry point panics, aborts, overflows the stack or hangs.
//! One run = one world (schema text + documents) built from the seed, with faults on the stored bytes,
//! executed through every public entry point inside a disposable child under an allocator budget, an
//! 8 MiB stack and a watchdog. `c05g` is the deterministic growth check over parametric families.

use crate::alloc;
use crate::cborref::EncCfg;
use crate::faults;
use crate::gen::*;
use crate::kernel::*;
use crate::rng::{fnv, fnv_add, Rng};
use serde_json::{json, Value};

pub struct C05;
pub struct C05G;
pub static C05_CHECK: C05 = C05;
pub static C05G_CHECK: C05G = C05G;

pub const ALL_OPS: &[&str] = &["parse", "parse_checked", "root_name", "format", "json", "cbor", "csv0", "csv1", "decode"];

thread_local! {
  static CORPUS: std::cell::RefCell<Option<std::rc::Rc<Corpus>>> = const { std::cell::RefCell::new(None) };
}

pub fn corpus() -> std::rc::Rc<Corpus> {
  CORPUS.with(|c| {
    let mut c = c.borrow_mut();
    if c.is_none() {
      let was = alloc::is_armed();
      alloc::disarm();
      *c = Some(std::rc::Rc::new(load_corpus()));
      if was {
        alloc::rearm();
      }
    }
    c.as_ref().unwrap().clone()
  })
}

#[derive(Clone, Debug, Default)]
pub struct World {
  pub schema: Vec<u8>,
  pub json: Option<Vec<u8>>,
  pub cbor: Option<Vec<u8>>,
  pub csv: Option<Vec<u8>>,
  pub features: Option<Vec<String>>,
  pub ops: Vec<String>,
  /// provenance, for humans
  pub origin: String,
  pub faults: Vec<String>,
}

impl World {
  pub fn to_json(&self) -> Value {
    let txt = |b: &Vec<u8>| -> Value {
      match std::str::from_utf8(b) {
        Ok(s) => json!({"text": s}),
        Err(_) => json!({"hex": hex(b)}),
      }
    };
    json!({
      "schema": txt(&self.schema),
      "json": self.json.as_ref().map(txt),
      "cbor": self.cbor.as_ref().map(|b| hex(b)),
      "csv": self.csv.as_ref().map(txt),
      "features": self.features,
      "ops": self.ops,
      "origin": self.origin,
      "faults": self.faults,
    })
  }
  pub fn from_json(v: &Value) -> World {
    let bytes = |x: &Value| -> Option<Vec<u8>> {
      if let Some(s) = x["text"].as_str() {
        Some(s.as_bytes().to_vec())
      } else {
        x["hex"].as_str().map(unhex)
      }
    };
    World {
      schema: bytes(&v["schema"]).unwrap_or_default(),
      json: bytes(&v["json"]),
      cbor: v["cbor"].as_str().map(unhex),
      csv: bytes(&v["csv"]),
      features: v["features"].as_array().map(|a| a.iter().filter_map(|x| x.as_str().map(|s| s.to_string())).collect()),
      ops: v["ops"].as_array().map(|a| a.iter().filter_map(|x| x.as_str().map(|s| s.to_string())).collect()).unwrap_or_default(),
      origin: v["origin"].as_str().unwrap_or("").to_string(),
      faults: v["faults"].as_array().map(|a| a.iter().filter_map(|x| x.as_str().map(|s| s.to_string())).collect()).unwrap_or_default(),
    }
  }
  pub fn size(&self) -> usize {
    self.schema.len()
      + self.json.as_ref().map(|b| b.len()).unwrap_or(0)
      + self.cbor.as_ref().map(|b| b.len()).unwrap_or(0)
      + self.csv.as_ref().map(|b| b.len()).unwrap_or(0)
  }
}

/// Outcome digest of one operation (for the fingerprint and the reach probes).
pub struct OpOut {
  pub op: &'static str,
  /// "ok", "err:<kind>", "panic", "skipped"
  pub outcome: String,
  pub panic: Option<PanicInfo>,
  pub alloc_calls: u64,
}

fn short_err(e: &str) -> String {
  let mut h = fnv(e.as_bytes());
  // keep the digest insensitive to nothing: the message is part of the observable outcome
  h ^= h >> 32;
  format!("{:08x}", h as u32)
}

/// Execute one operation of a world. Panics are caught; anything worse kills the child (by design).
pub fn exec_op(w: &World, op: &'static str) -> OpOut {
  let schema_str = std::str::from_utf8(&w.schema).ok();
  let feats_owned: Option<Vec<&str>> = w.features.as_ref().map(|f| f.iter().map(|s| s.as_str()).collect());
  let feats: Option<&[&str]> = feats_owned.as_deref();
  trace(&format!("op {}", op));
  alloc::reset_calls();
  let res: Result<String, PanicInfo> = guarded(|| match op {
    "parse" => match schema_str {
      Some(s) => match cddl::cddl_from_str(s, false) {
        Ok(_) => "ok".to_string(),
        Err(e) => format!("err:{}", short_err(&e)),
      },
      None => "skipped".into(),
    },
    "parse_checked" => match cddl::ast::CDDL::from_slice(&w.schema) {
      Ok(_) => "ok".to_string(),
      Err(e) => format!("err:{}", short_err(&e)),
    },
    "root_name" => match schema_str {
      Some(s) => match cddl::parser::root_type_name_from_cddl_str(s) {
        Ok(n) => format!("ok:{}", short_err(&n)),
        Err(e) => format!("err:{}", short_err(&e)),
      },
      None => "skipped".into(),
    },
    "format" => match schema_str {
      Some(s) => match cddl::cddl_from_str(s, false) {
        Ok(c) => {
          let text = c.to_string();
          // formatting again what was formatted: the formatter is an entry point for its own output too
          match cddl::cddl_from_str(&text, false) {
            Ok(c2) => format!("ok:{}:{}", short_err(&text), short_err(&c2.to_string())),
            Err(e) => format!("ok:{}:reparse-err:{}", short_err(&text), short_err(&e)),
          }
        }
        Err(_) => "skipped".into(),
      },
      None => "skipped".into(),
    },
    "json" => match (schema_str, w.json.as_ref().and_then(|j| std::str::from_utf8(j).ok())) {
      (Some(s), Some(j)) => match cddl::validate_json_from_str(s, j, feats) {
        Ok(()) => "ok".to_string(),
        Err(cddl::validator::json::Error::CDDLParsing(_)) => "err:schema".into(),
        Err(cddl::validator::json::Error::JSONParsing(_)) => "err:doc".into(),
        Err(e) => format!("err:validation:{}", short_err(&e.to_string())),
      },
      _ => "skipped".into(),
    },
    "cbor" => match (schema_str, w.cbor.as_ref()) {
      (Some(s), Some(b)) => match cddl::validate_cbor_from_slice(s, b, feats) {
        Ok(()) => "ok".to_string(),
        Err(cddl::validator::cbor::Error::CDDLParsing(_)) => "err:schema-or-doc".into(),
        Err(cddl::validator::cbor::Error::CBORParsing(_)) => "err:doc".into(),
        Err(e) => format!("err:validation:{}", short_err(&e.to_string())),
      },
      _ => "skipped".into(),
    },
    "csv0" | "csv1" => match (schema_str, w.csv.as_ref().and_then(|j| std::str::from_utf8(j).ok())) {
      (Some(s), Some(c)) => match cddl::validate_csv_from_str(s, c, Some(op == "csv1"), feats) {
        Ok(()) => "ok".to_string(),
        Err(cddl::validator::csv_validator::Error::CDDLParsing(_)) => "err:schema".into(),
        Err(cddl::validator::csv_validator::Error::CSVParsing(_)) => "err:doc".into(),
        Err(e) => format!("err:validation:{}", short_err(&e.to_string())),
      },
      _ => "skipped".into(),
    },
    "decode" => match w.cbor.as_ref() {
      Some(b) => match cddl::validator::cbor_value::decode_cbor(b) {
        Ok(v) => {
          // Display of the decoded value is reachable by any caller that prints it
          let _ = v.to_string();
          "ok".to_string()
        }
        Err(_) => "err".into(),
      },
      None => "skipped".into(),
    },
    _ => "skipped".into(),
  });
  let calls = alloc::calls();
  match res {
    Ok(outcome) => OpOut { op, outcome, panic: None, alloc_calls: calls },
    Err(p) => OpOut { op, outcome: "panic".into(), panic: Some(p), alloc_calls: calls },
  }
}

fn op_static(op: &str) -> Option<&'static str> {
  ALL_OPS.iter().find(|o| **o == op).copied()
}

/// Budget of the allocator seam for a world: a single request above max(32 MiB, 1024 x input) or more
/// than max(256 MiB, 2048 x input) live is "memory the input does not justify".
pub fn arm_for(w: &World) {
  // floor 32 MiB: the regex crate compiles within a documented, input-independent size limit (10 MiB, reached
  // by doubling vectors), which a 40-byte pattern such as (a{1000}){1000} legitimately uses up
  let single = (32usize << 20).max(1024 * w.size());
  alloc::arm(single, (256usize << 20).max(2048 * w.size()));
}

pub fn exec_world_ops(w: &World) -> (Vec<OpOut>, Vec<Violation>) {
  let mut outs = Vec::new();
  let mut vs = Vec::new();
  arm_for(w);
  for op in &w.ops {
    let op = match op_static(op) {
      Some(o) => o,
      None => continue,
    };
    let o = exec_op(w, op);
    if let Some(p) = &o.panic {
      let mut w1 = w.clone();
      w1.ops = vec![op.to_string()];
      vs.push(Violation {
        class: "panic".into(),
        signature: format!("{}:{}", op, panic_site(p)),
        world: w1.to_json(),
        detail: format!("{} panicked: {} at {} [{}]", op, p.msg, p.location, p.frames.iter().take(4).cloned().collect::<Vec<_>>().join(" <- ")),
      });
    }
    outs.push(o);
  }
  (outs, vs)
}

// ------------------------------------------------------------------------------------------------
// world construction

fn apply_faults(r: &mut Rng, b: &[u8], donor: &[u8], n: usize, cbor: bool, log: &mut Vec<String>, out: &mut RunOut) -> Vec<u8> {
  let mut cur = b.to_vec();
  for _ in 0..n {
    let f = if cbor {
      let heads = faults::cbor_heads(&cur);
      faults::random_cbor_fault(r, &cur, &heads, donor)
    } else {
      faults::random_byte_fault(r, &cur, donor)
    };
    out.fault(f.kind());
    log.push(f.describe());
    cur = f.apply(&cur);
  }
  cur
}

/// Text-level faults that keep the input UTF-8 (byte faults on text mostly produce invalid UTF-8,
/// which every text entry point rejects before doing anything interesting).
fn text_fault(r: &mut Rng, s: &str, donor: &str, log: &mut Vec<String>, out: &mut RunOut) -> String {
  let cs: Vec<char> = s.chars().collect();
  let ds: Vec<char> = donor.chars().collect();
  if cs.is_empty() {
    return s.to_string();
  }
  let p = r.below(cs.len());
  let mut v = cs.clone();
  const PUNCT: &[char] = &['(', ')', '[', ']', '{', '}', '<', '>', '/', ',', ':', '=', '"', '\'', '.', '*', '?', '+', '#', '~', '&', '^', '$', '-', '\\', ';', '\n', ' ', '0', '9', 'e', 'x', 'h'];
  match r.below(9) {
    7 => {
      // a non-ASCII character (2, 3 and 4 bytes in UTF-8, a combining mark, a line separator) somewhere: byte
      // offsets and character offsets part ways from here on
      let c = *r.pick(&['\u{e9}', '\u{540d}', '\u{1f600}', '\u{301}', '\u{2028}', '\u{a0}', '\u{feff}']);
      v.insert(p, c);
      out.fault("text_insert_nonascii");
      log.push(format!("text_insert_nonascii({}, {:?})", p, c));
    }
    8 => {
      // the text stops in the middle of a rule, after a comment: error positions are computed at the end of
      // the input, looking back over white space and comments
      let cut = if r.coin() { p } else { cs.len() };
      v.truncate(cut);
      let tail = *r.pick(&["\nzz = ", "\nzz = [ int, ", "\nzz = { k: tstr, ", "\nzz = int / ", "\nzz<T> = ", "\nzz = #6.", "\nzz = ( a: int, ", " / ", " ,", ""]);
      let comment = *r.pick(&["", "; note", "; \u{e9}", "; cl\u{e9}", "; \u{540d}\u{524d}", ";\u{1f600}", "; a\u{301}", "; x ;; \u{a0}"]);
      let end = *r.pick(&["", "\n", " \n", "\r\n", "\n\n", "\t"]);
      v.extend(tail.chars());
      v.extend(comment.chars());
      v.extend(end.chars());
      out.fault("text_dangling_tail");
      log.push(format!("text_dangling_tail({}, {:?}, {:?}, {:?})", cut, tail, comment, end));
    }
    0 => {
      v.truncate(p);
      out.fault("text_truncate");
      log.push(format!("text_truncate({})", p));
    }
    1 => {
      let c = *r.pick(PUNCT);
      v[p] = c;
      out.fault("text_overwrite");
      log.push(format!("text_overwrite({}, {:?})", p, c));
    }
    2 => {
      let c = *r.pick(PUNCT);
      v.insert(p, c);
      out.fault("text_insert");
      log.push(format!("text_insert({}, {:?})", p, c));
    }
    3 => {
      let n = r.range(1, 6).min(v.len() - p);
      v.drain(p..p + n);
      out.fault("text_delete");
      log.push(format!("text_delete({}, {})", p, n));
    }
    4 => {
      let n = r.range(1, 20).min(v.len() - p);
      let span: Vec<char> = v[p..p + n].to_vec();
      let at = r.below(v.len() + 1);
      v.splice(at..at, span);
      out.fault("text_dupspan");
      log.push(format!("text_dupspan({}, {}, {})", p, n, at));
    }
    5 if !ds.is_empty() => {
      let s0 = r.below(ds.len());
      let n = r.range(1, 30).min(ds.len() - s0);
      v.splice(p..p, ds[s0..s0 + n].iter().cloned());
      out.fault("text_splice");
      log.push(format!("text_splice({}, donor[{}..{}])", p, s0, s0 + n));
    }
    _ => {
      // swap two adjacent tokens-ish spans
      let q = r.below(cs.len());
      v.swap(p, q);
      out.fault("text_swap");
      log.push(format!("text_swap({}, {})", p, q));
    }
  }
  v.into_iter().collect()
}

pub fn build_world(seed: u64, idx: u64, out: &mut RunOut) -> World {
  let mut rw = Rng::stream(seed, "c05", idx, "workload");
  let mut rf = Rng::stream(seed, "c05", idx, "faults");
  let mut rk = Rng::stream(seed, "c05", idx, "knobs");
  let mut w = World::default();
  w.ops = ALL_OPS.iter().map(|s| s.to_string()).collect();
  if rk.chance(1, 4) {
    w.features = Some(match rk.below(3) {
      0 => vec![],
      1 => vec!["featx".into()],
      _ => vec!["other".into(), "featx".into()],
    });
  }
  let dcfg = DocCfg::swarm(&mut rk);
  let enc = EncCfg::swarm(&mut rk);
  let source = rk.weighted(&[4, 8, 3, 2, 1, 1, 1, 1, 2, 1, 1]);
  match source {
    0 => {
      // valid data at rest: corpus
      let c = corpus();
      if c.schemas.is_empty() {
        w.origin = "corpus-missing".into();
        out.probe("CORPUS_MISSING");
      } else {
        let si = rw.below(c.schemas.len());
        w.schema = c.schemas[si].1.as_bytes().to_vec();
        w.origin = format!("corpus:{}", c.schemas[si].0);
        let js: Vec<&(usize, String, String)> = c.json.iter().filter(|x| x.0 == si).collect();
        let cs: Vec<&(usize, String, Vec<u8>)> = c.cbor.iter().filter(|x| x.0 == si).collect();
        let vs: Vec<&(usize, String, String)> = c.csv.iter().filter(|x| x.0 == si).collect();
        w.json = Some(if !js.is_empty() { rw.pick(&js).2.as_bytes().to_vec() } else { rw.pick(&c.json).2.as_bytes().to_vec() });
        w.cbor = Some(if !cs.is_empty() { rw.pick(&cs).2.clone() } else { rw.pick(&c.cbor).2.clone() });
        w.csv = Some(if !vs.is_empty() { rw.pick(&vs).2.as_bytes().to_vec() } else { rw.pick(&c.csv).2.as_bytes().to_vec() });
        out.probe("src_corpus");
      }
    }
    1 => {
      // a document and a schema inferred from it
      let doc = gen_doc(&mut rw, &dcfg, 0);
      let scfg = SchemaCfg::swarm(&mut rk);
      let mut g = SchemaGen::new(&mut rw, scfg);
      let root = g.ty(&doc, 0);
      let used = g.used.clone();
      let schema = g.finish(root);
      for u in used {
        out.probe(u);
      }
      let shown = if rk.chance(1, 3) { perturb(&mut rw, &dcfg, &doc) } else { doc.clone() };
      w.schema = schema.into_bytes();
      w.json = Some(to_json(&shown).into_bytes());
      let mut b = Vec::new();
      to_cbor(&shown, &mut b, &enc, &mut rw);
      w.cbor = Some(b);
      let csvdoc = gen_csv_doc(&mut rw, &dcfg);
      w.csv = Some(to_csv(&csvdoc, &mut rw).into_bytes());
      w.origin = "inferred".into();
      out.probe("src_inferred");
    }
    2 => {
      // CSV-shaped document with an inferred schema (so that the CSV route goes deep)
      let csvdoc = gen_csv_doc(&mut rw, &dcfg);
      let scfg = SchemaCfg::swarm(&mut rk);
      let mut g = SchemaGen::new(&mut rw, scfg);
      let root = g.ty(&csvdoc, 0);
      let schema = g.finish(root);
      w.schema = schema.into_bytes();
      w.csv = Some(to_csv(&csvdoc, &mut rw).into_bytes());
      w.json = Some(to_json(&csvdoc).into_bytes());
      w.cbor = Some(to_cbor_min(&csvdoc));
      w.origin = "inferred-csv".into();
      out.probe("src_inferred_csv");
    }
    3 => {
      // grammar-directed schema, unrelated document
      w.schema = rand_schema(&mut rw).into_bytes();
      let doc = gen_doc(&mut rw, &dcfg, 0);
      w.json = Some(to_json(&doc).into_bytes());
      let mut b = Vec::new();
      to_cbor(&doc, &mut b, &enc, &mut rw);
      w.cbor = Some(b);
      w.csv = Some(to_csv(&gen_csv_doc(&mut rw, &dcfg), &mut rw).into_bytes());
      w.origin = "grammar".into();
      out.probe("src_grammar");
    }
    10 => {
      // occurrence arithmetic and map-entry bookkeeping
      let (schema, doc, raw) = occurrence_edge_case(&mut rw);
      w.schema = schema.into_bytes();
      w.json = Some(to_json(&doc).into_bytes());
      w.cbor = Some(raw.unwrap_or_else(|| to_cbor_min(&doc)));
      w.csv = Some("1,a\n".to_string().into_bytes());
      w.origin = "occurrence-edge".into();
      out.probe("src_occurrence_edge");
    }
    9 => {
      // hostile CBOR: a well-formed item written with every encoding liberty (indefinite strings with chunks,
      // indefinite arrays / maps, non-minimal heads) in which one or two heads announce a hostile length
      // (2^k - 1, 2^k, 2^k + 1, more than the remaining input) - against a permissive schema, so that both
      // the decoder and the validator meet it
      let mut ecfg = EncCfg::swarm(&mut rk);
      ecfg.indefinite = true;
      ecfg.chunk_strings = true;
      let doc = gen_doc(&mut rw, &DocCfg { cbor_only: true, long_strings: rk.coin(), ..dcfg.clone() }, 0);
      let mut b = Vec::new();
      to_cbor(&doc, &mut b, &ecfg, &mut rw);
      let mut log = Vec::new();
      for _ in 0..rf.range(1, 2) {
        let heads = faults::cbor_heads(&b);
        if heads.is_empty() {
          break;
        }
        let h = *rf.pick(&heads);
        let f = if rf.chance(3, 4) { faults::Fault::HostileLen(h, faults::hostile_len_value(&mut rf), rf.coin()) } else { faults::Fault::HostileLen(h, (b.len() - h) as u64 + rf.below(3) as u64, false) };
        out.fault(f.kind());
        log.push(f.describe());
        b = f.apply(&b);
      }
      w.schema = (*rw.pick(&["root = any\n", "root = [* any] / { * any => any } / bstr / tstr\n", "root = bstr .cbor any / any\n", "root = { * tstr => any }\n"])).to_string().into_bytes();
      w.json = Some(to_json(&doc).into_bytes());
      w.cbor = Some(b);
      w.csv = Some("1,2\n".to_string().into_bytes());
      w.faults = log;
      w.origin = "hostile-cbor".into();
      out.probe("src_hostile_cbor");
    }
    8 => {
      // every control operator with plausible and awkward controllers against non-ASCII / boundary values
      let (schema, doc) = control_matrix_case(&mut rw);
      w.schema = schema.into_bytes();
      w.json = Some(to_json(&doc).into_bytes());
      let mut b = Vec::new();
      to_cbor(&doc, &mut b, &enc, &mut rw);
      w.cbor = Some(b);
      w.csv = Some(format!("{}\n", to_json(&doc)).into_bytes());
      w.origin = "control-matrix".into();
      out.probe("src_control_matrix");
    }
    7 => {
      // numeric edges: ranges, comparison controls, bignum / decimal-fraction tags, special floats
      let (schema, doc) = numeric_edge_case(&mut rw);
      w.schema = schema.into_bytes();
      w.json = Some(to_json(&doc).into_bytes());
      let mut b = Vec::new();
      to_cbor(&doc, &mut b, &enc, &mut rw);
      w.cbor = Some(b);
      w.csv = Some(format!("{}\n", to_json(&doc)).into_bytes());
      w.origin = "numeric-edge".into();
      out.probe("src_numeric_edge");
    }
    6 => {
      // a legitimately recursive schema and data that recurses (or almost conforms) to depth <= 63
      let (schema, doc, shape) = recursive_case(&mut rw);
      w.schema = schema.into_bytes();
      w.json = Some(to_json(&doc).into_bytes());
      w.cbor = Some(to_cbor_min(&doc));
      w.csv = Some("1,2\n".to_string().into_bytes());
      w.origin = format!("recursive:{}", shape);
      out.probe("src_recursive");
    }
    5 => {
      // a huge constant in the schema meets a construct that might iterate over its numeric value
      let (schema, doc) = huge_const_case(&mut rw);
      w.schema = schema.into_bytes();
      w.json = Some(to_json(&doc).into_bytes());
      w.cbor = Some(to_cbor_min(&doc));
      w.csv = Some("1,a\n".to_string().into_bytes());
      w.origin = "huge-constant".into();
      out.probe("src_huge_constant");
    }
    _ => {
      // nesting / size family within the property's bounds (depth <= 64, total <= 64 KiB)
      let f = *rw.pick(FAMILIES);
      let nesting = matches!(
        f,
        Family::SchemaArray | Family::SchemaMap | Family::SchemaParen | Family::SchemaGroup | Family::SchemaArrayNamed | Family::SchemaGeneric | Family::SchemaChoiceNest | Family::DataArray | Family::DataMap | Family::DataTag | Family::RecursiveRule | Family::AbnfNest | Family::ArrayChoiceNest
      );
      // exponential-by-construction families stay small here; the growth check measures them
      let n = match f {
        // ChoiceOfMaps doubles its text per level: beyond 7 it is only a slow, big input
        Family::ChoiceOfMaps => rw.range(1, 7),
        // doubles per level in the CBOR validator today (known finding, measured by the growth series)
        Family::RecursiveChoiceBadLeaf => rw.range(1, 10),
        Family::AliasDiamond | Family::SchemaChoiceNest => rw.range(1, 10),
        _ if nesting => *rw.pick(&[4usize, 8, 16, 32, 48, 63, 64]),
        Family::ManyRules | Family::ManyChoices | Family::WideMap | Family::OptionalRun => *rw.pick(&[10usize, 100, 400, 1000]),
        Family::JoinRepeat | Family::PatternRepeat => *rw.pick(&[10usize, 30, 100, 400]),
        _ => *rw.pick(&[10usize, 100, 1000, 5000]),
      };
      let c = family_case(f, n);
      w.schema = c.schema.into_bytes();
      w.json = Some(c.json.into_bytes());
      w.cbor = Some(c.cbor);
      w.origin = format!("family:{:?}:{}", f, n);
      out.probe("src_family");
    }
  }
  // faults on the data at rest
  if source != 4 && source != 5 && source != 6 && source != 7 && source != 8 && source != 9 && source != 10 && rk.chance(2, 3) {
    let nf = rf.range(1, 3);
    let which = rf.below(4);
    let mut log = Vec::new();
    let donor_schema = rand_schema(&mut rf);
    match which {
      0 => {
        if let Ok(s) = std::str::from_utf8(&w.schema).map(|s| s.to_string()) {
          let mut cur = s;
          for _ in 0..nf {
            cur = text_fault(&mut rf, &cur, &donor_schema, &mut log, out);
          }
          w.schema = cur.into_bytes();
        }
      }
      1 => {
        if let Some(j) = w.json.clone() {
          if let Ok(s) = std::str::from_utf8(&j).map(|s| s.to_string()) {
            let mut cur = s;
            for _ in 0..nf {
              cur = text_fault(&mut rf, &cur, "[{\"a\":1e999,\"b\":[null,-0]}]", &mut log, out);
            }
            w.json = Some(cur.into_bytes());
          }
        }
        if let Some(c) = w.csv.clone() {
          if let Ok(s) = std::str::from_utf8(&c).map(|s| s.to_string()) {
            let cur = text_fault(&mut rf, &s, "\"a\"\"b\",,\r\n", &mut log, out);
            w.csv = Some(cur.into_bytes());
          }
        }
      }
      2 => {
        if let Some(b) = w.cbor.clone() {
          let donor = to_cbor_min(&gen_doc(&mut rf, &dcfg, 0));
          w.cbor = Some(apply_faults(&mut rf, &b, &donor, nf, true, &mut log, out));
        }
      }
      _ => {
        // raw byte faults anywhere (also produces invalid UTF-8 for from_slice)
        let b = w.schema.clone();
        w.schema = apply_faults(&mut rf, &b, donor_schema.as_bytes(), nf, false, &mut log, out);
      }
    }
    w.faults = log;
  }
  // the property's bound
  if w.size() > 64 * 1024 {
    w.schema.truncate(32 * 1024);
    out.probe("clamped_to_64k");
  }
  w
}

impl Check for C05 {
  fn name(&self) -> &'static str {
    "c05"
  }
  fn default_budget(&self) -> (usize, usize) {
    (usize::MAX, usize::MAX)
  }
  fn watchdog_s(&self) -> u64 {
    20
  }

  fn run(&self, seed: u64, idx: u64, _tier: Tier) -> RunOut {
    let mut out = RunOut::default();
    let w = build_world(seed, idx, &mut out);
    if trace_on() {
      trace(&format!("world {}", w.to_json()));
    }
    let (outs, vs) = exec_world_ops(&w);
    alloc::disarm();
    let mut fp = fnv_add(fnv(b"c05"), &w.schema);
    for b in [&w.json, &w.cbor, &w.csv].into_iter().flatten() {
      fp = fnv_add(fp, b);
    }
    let mut reached = 0;
    for o in &outs {
      fp = fnv_add(fp, o.op.as_bytes());
      fp = fnv_add(fp, o.outcome.as_bytes());
      out.ops += 1;
      match (o.op, o.outcome.as_str()) {
        ("parse", "ok") => out.probe("schema_parsed"),
        ("parse", _) => out.probe("schema_rejected"),
        ("json", x) if x == "ok" => {
          out.probe("json_valid");
          reached += 1;
        }
        ("json", x) if x.starts_with("err:validation") => {
          out.probe("json_nonconforming");
          reached += 1;
        }
        ("cbor", x) if x == "ok" => {
          out.probe("cbor_valid");
          reached += 1;
        }
        ("cbor", x) if x.starts_with("err:validation") => {
          out.probe("cbor_nonconforming");
          reached += 1;
        }
        ("csv0", x) | ("csv1", x) if x == "ok" => {
          out.probe("csv_valid");
          reached += 1;
        }
        ("csv0", x) | ("csv1", x) if x.starts_with("err:validation") => {
          out.probe("csv_nonconforming");
          reached += 1;
        }
        ("decode", "ok") => out.probe("cbor_well_formed"),
        (_, "panic") => out.probe("panic_caught"),
        _ => {}
      }
    }
    out.nontrivial = reached > 0;
    out.fp = fp;
    out.violations = vs;
    out.sample = Some(json!({"origin": w.origin, "faults": w.faults, "schema": String::from_utf8_lossy(&w.schema).chars().take(400).collect::<String>(),
      "json": w.json.as_ref().map(|j| String::from_utf8_lossy(j).chars().take(200).collect::<String>()),
      "outcomes": outs.iter().map(|o| format!("{}={}", o.op, o.outcome)).collect::<Vec<_>>()}));
    out
  }

  fn exec_world(&self, world: &Value) -> Vec<Violation> {
    let w = World::from_json(world);
    let (_, vs) = exec_world_ops(&w);
    vs
  }
}

// ------------------------------------------------------------------------------------------------
// growth check: allocator-call counts over parametric families are exactly repeatable, so
// super-polynomial behaviour is decided without reading a clock.

pub const GROWTH_OPS: &[&str] = &["parse", "format", "json", "cbor"];

impl C05G {
  pub fn total_runs() -> u64 {
    (FAMILIES.len() * GROWTH_OPS.len()) as u64
  }
}

fn growth_limit(f: Family) -> f64 {
  if is_nesting(f) {
    12.0
  } else {
    64.0
  }
}

fn is_nesting(f: Family) -> bool {
  !matches!(f, Family::ManyRules | Family::ManyChoices | Family::LongArray | Family::WideMap | Family::OptionalRun | Family::JoinRepeat | Family::PatternRepeat)
}

impl Check for C05G {
  fn name(&self) -> &'static str {
    "c05g"
  }
  fn default_budget(&self) -> (usize, usize) {
    (usize::MAX, usize::MAX)
  }
  fn watchdog_s(&self) -> u64 {
    60
  }

  fn run(&self, _seed: u64, idx: u64, _tier: Tier) -> RunOut {
    let mut out = RunOut::default();
    let f = FAMILIES[(idx as usize) / GROWTH_OPS.len() % FAMILIES.len()];
    let op = GROWTH_OPS[(idx as usize) % GROWTH_OPS.len()];
    // geometric probe: equally spaced depths; an exponential keeps its ratio, a polynomial's ratio falls
    let geometric = f == Family::RecursiveChoiceBadLeaf;
    let params: Vec<usize> = if geometric {
      vec![4, 7, 10, 13, 16]
    } else if is_nesting(f) {
      vec![4, 8, 12, 16]
    } else {
      vec![50, 100, 200, 400]
    };
    let mut counts: Vec<u64> = Vec::new();
    for (pi, n) in params.iter().enumerate() {
      // the input of ChoiceOfMaps doubles per level by construction: its series is not a growth claim
      if f == Family::ChoiceOfMaps {
        break;
      }
      // decided already (two ratios above the limit): the last, most expensive point adds nothing
      if !geometric && pi == 3 && counts.len() == 3 && counts[1] as f64 / counts[0] as f64 >= growth_limit(f) && counts[2] as f64 / counts[1] as f64 >= growth_limit(f) {
        break;
      }
      let c = family_case(f, *n);
      let w = World {
        schema: c.schema.into_bytes(),
        json: Some(c.json.into_bytes()),
        cbor: Some(c.cbor),
        csv: None,
        features: None,
        ops: vec![op.to_string()],
        origin: format!("family:{:?}:{}", f, n),
        faults: vec![],
      };
      if trace_on() {
        trace(&format!("world {}", w.to_json()));
      }
      arm_for(&w);
      let o = exec_op(&w, op);
      alloc::disarm();
      out.ops += 1;
      if let Some(p) = &o.panic {
        out.violations.push(Violation {
          class: "panic".into(),
          signature: format!("{}:{}", op, panic_site(p)),
          world: w.to_json(),
          detail: format!("{} panicked: {} at {}", op, p.msg, p.location),
        });
      }
      counts.push(o.alloc_calls.max(1));
    }
    // nesting: +4 levels must not multiply the work by >= 12 twice in a row (doubling per level is 16x);
    // size: doubling n must not multiply the work by >= 64 twice in a row (anything up to degree 5 stays below).
    let limit = growth_limit(f);
    let ratios: Vec<f64> = counts.windows(2).map(|w| w[1] as f64 / w[0] as f64).collect();
    let bad = if geometric {
      // every +3 levels multiplies the work by at least 3, and the factor does not fall off: for n^k the last
      // factor is (16/13)^k against (7/4)^k for the first, i.e. at most 0.37 of it for any k >= 3
      ratios.len() == 4 && ratios.iter().all(|r| *r >= 3.0) && ratios[3] >= 0.7 * ratios[0]
    } else {
      ratios.windows(2).any(|r| r[0] >= limit && r[1] >= limit)
    };
    if bad {
      let c = family_case(f, params[1]);
      let w = World {
        schema: c.schema.into_bytes(),
        json: Some(c.json.into_bytes()),
        cbor: Some(c.cbor),
        ops: vec![op.to_string()],
        origin: format!("family:{:?}", f),
        ..Default::default()
      };
      out.violations.push(Violation {
        class: "super-polynomial".into(),
        signature: format!("{}:{:?}", op, f),
        world: json!({"family": format!("{:?}", f), "op": op, "params": params, "example": w.to_json()}),
        detail: if geometric {
          format!("allocator calls {:?} at depths {:?}: the factor per +3 levels stays at {:?} (geometric growth; a polynomial's factor falls off)", counts, params, ratios)
        } else {
          format!("allocator calls {:?} at parameters {:?}: ratios {:?} (limit {} twice in a row)", counts, params, ratios, limit)
        },
      });
    }
    out.fp = fnv_add(fnv(op.as_bytes()), format!("{:?}{:?}", f, counts).as_bytes());
    out.nontrivial = true;
    out.sample = Some(json!({"family": format!("{:?}", f), "op": op, "params": params, "alloc_calls": counts}));
    out.probes.push(("growth_series", 1));
    out
  }

  fn exec_world(&self, world: &Value) -> Vec<Violation> {
    // replay of a growth violation: recompute the series for that family and operation
    let fam = world["family"].as_str().unwrap_or("");
    let op = world["op"].as_str().unwrap_or("");
    for (i, f) in FAMILIES.iter().enumerate() {
      if format!("{:?}", f) == fam {
        for (j, o) in GROWTH_OPS.iter().enumerate() {
          if *o == op {
            return self.run(0, (i * GROWTH_OPS.len() + j) as u64, Tier::Quick).violations;
          }
        }
      }
    }
    vec![]
  }
}
