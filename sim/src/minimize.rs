//! Generic ddmin over a list of atoms, with a step budget.

pub struct Budget {
  pub steps: usize,
  pub deadline: std::time::Instant,
}

impl Budget {
  pub fn new(steps: usize, secs: u64) -> Budget {
    Budget { steps, deadline: std::time::Instant::now() + std::time::Duration::from_secs(secs) }
  }
  fn spend(&mut self) -> bool {
    if self.steps == 0 || std::time::Instant::now() >= self.deadline {
      return false;
    }
    self.steps -= 1;
    true
  }
}

/// Smallest sub-list (by ddmin) of `atoms` for which `fails` still holds. `fails(atoms)` must hold on entry.
pub fn ddmin<T: Clone>(atoms: Vec<T>, budget: &mut Budget, fails: &mut dyn FnMut(&[T]) -> bool) -> Vec<T> {
  let mut cur = atoms;
  let mut n = 2usize;
  while cur.len() >= 2 {
    let chunk = (cur.len() + n - 1) / n;
    let mut reduced = false;
    // try removing each chunk (complement test)
    let mut i = 0;
    while i * chunk < cur.len() {
      let lo = i * chunk;
      let hi = (lo + chunk).min(cur.len());
      let mut cand: Vec<T> = Vec::with_capacity(cur.len() - (hi - lo));
      cand.extend_from_slice(&cur[..lo]);
      cand.extend_from_slice(&cur[hi..]);
      if !budget.spend() {
        return cur;
      }
      if !cand.is_empty() && fails(&cand) {
        cur = cand;
        n = (n - 1).max(2);
        reduced = true;
        break;
      }
      i += 1;
    }
    if !reduced {
      if chunk == 1 {
        break;
      }
      n = (n * 2).min(cur.len());
    }
  }
  // final pass: try removing the single remaining atoms one at a time
  let mut i = 0;
  while cur.len() > 1 && i < cur.len() {
    let mut cand = cur.clone();
    cand.remove(i);
    if !budget.spend() {
      return cur;
    }
    if fails(&cand) {
      cur = cand;
    } else {
      i += 1;
    }
  }
  cur
}

/// Try to replace each atom by a simpler one (e.g. bytes by 0), keeping the failure.
pub fn simplify<T: Clone + PartialEq>(
  atoms: Vec<T>,
  simpler: &dyn Fn(&T) -> Vec<T>,
  budget: &mut Budget,
  fails: &mut dyn FnMut(&[T]) -> bool,
) -> Vec<T> {
  let mut cur = atoms;
  for i in 0..cur.len() {
    for s in simpler(&cur[i]) {
      if s == cur[i] {
        continue;
      }
      let mut cand = cur.clone();
      cand[i] = s;
      if !budget.spend() {
        return cur;
      }
      if fails(&cand) {
        cur = cand;
        break;
      }
    }
  }
  cur
}
